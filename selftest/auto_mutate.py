#!/venv/bin/python
"""Mutation sampling: random single-token mutants of pvl/*.py that survive the
repository's own stable tests are run against the quick checks most relevant
to the mutated file (all of them with --all) until one fires.

  selftest/auto_mutate.py [--n 120] [--seed 1] [--all] [--files a.py,b.py]

Survivors (no check fired) are written to selftest/auto_survivors.json for
analysis: each is either an equivalent mutant or a gap to close.  Not one of
the registered checks."""
import argparse
import json
import os
import py_compile
import random
import re
import shutil
import subprocess
import sys
import tempfile
import time

HERE = os.path.dirname(os.path.abspath(__file__))
VERIF = os.path.dirname(HERE)

OPS = [
    (r"==", "!="), (r"!=", "=="), (r"<=", "<"), (r">=", ">"),
    (r"(?<![<>=!])<(?![=<])", "<="), (r"(?<![<>=!-])>(?![=>])", ">="),
    (r"\band\b", "or"), (r"\bor\b", "and"), (r"\bTrue\b", "False"),
    (r"\bFalse\b", "True"), (r"\bnot ", ""), (r"\+ 1\b", "- 1"), (r"- 1\b", "+ 1"),
    (r"\b0\b", "1"), (r"\b1\b", "0"), (r"\.upper\(\)", ""), (r"\.casefold\(\)", ""),
    (r"\.strip\(([^)]*)\)", ""), (r"\bis not None\b", "is None"),
    (r"\bis None\b", "is not None"), (r"\bcontinue\b", "pass"),
    (r"\bbreak\b", "pass"), (r"\[0\]", "[-1]"), (r"\[1\]", "[0]"),
    (r"\bin\b", "not in"), (r"\bmax\(", "min("), (r"\bany\(", "all("),
    (r"\ball\(", "any("), (r"\.append\(", ".insert(0, "),
]
RELEVANT = {
    "encoder.py": ["C01", "C12", "C02", "C07", "C13", "C14", "C17", "C16", "C19", "C20"],
    "decoder.py": ["C03", "C14", "C17", "C01", "C18", "C06", "C07", "C16"],
    "lexer.py": ["C03", "C04", "C05", "C06", "C15", "C09", "C14"],
    "parser.py": ["C03", "C05", "C06", "C08", "C04", "C09", "C16", "C18", "C19"],
    "collections.py": ["C10", "C11", "C13", "C19", "C01"],
    "grammar.py": ["C15", "C03", "C14", "C17", "C01"],
    "token.py": ["C17", "C04", "C03", "C05", "C06"],
    "__init__.py": ["C09", "C20", "C19"],
    "new.py": ["C19"],
    "pvl_translate.py": ["C20", "C16"],
    "pvl_validate.py": ["C20", "C16"],
    "exceptions.py": ["C15", "C08", "C06", "C05"],
}
ALL = [f"C{n:02d}" for n in range(1, 21)]


def code_lines(path):
    """(lineno, text) of lines that are code (no comments / docstrings)."""
    out, in_doc = [], False
    for i, line in enumerate(open(path).read().split("\n")):
        st = line.strip()
        if in_doc:
            if '"""' in st or "'''" in st:
                in_doc = False
            continue
        if st.startswith(('"""', "'''", 'r"""', 'f"""')):
            if st.count('"""') + st.count("'''") < 2:
                in_doc = True
            continue
        if not st or st.startswith("#") or st.startswith(("import ", "from ")):
            continue
        if st.startswith(('"', "'", 'f"', "f'", 'r"')) and not st.endswith(":"):
            continue  # a string continuation line (messages)
        out.append((i, line))
    return out


def main():
    ap = argparse.ArgumentParser()
    ap.add_argument("--n", type=int, default=120)
    ap.add_argument("--seed", type=int, default=1)
    ap.add_argument("--all", action="store_true")
    ap.add_argument("--files", default="")
    a = ap.parse_args()
    rng = random.Random(a.seed)
    files = [f for f in RELEVANT if not a.files or f in a.files.split(",")]
    sites = []
    for f in files:
        p = os.path.join("/repo/pvl", f)
        for lineno, line in code_lines(p):
            for k, (pat, rep) in enumerate(OPS):
                for m in re.finditer(pat, line.split("#")[0]):
                    sites.append((f, lineno, k, m.start(), m.end()))
    rng.shuffle(sites)
    subprocess.run([os.path.join(VERIF, "setup.sh")], capture_output=True)
    out_path = os.path.join(HERE, f"auto_results_seed{a.seed}.json")
    results = []
    done = 0
    for f, lineno, k, s0, s1 in sites:
        if done >= a.n:
            break
        d = tempfile.mkdtemp(prefix="pvlauto.", dir="/dev/shm")
        try:
            subprocess.run(["rsync", "-a", "--exclude", ".git", "/repo/", d + "/"], check=True)
            p = os.path.join(d, "pvl", f)
            lines = open(p).read().split("\n")
            pat, rep = OPS[k]
            old = lines[lineno]
            new = old[:s0] + re.sub(pat, rep, old[s0:s1], count=1) + old[s1:]
            if new == old:
                continue
            lines[lineno] = new
            open(p, "w").write("\n".join(lines))
            try:
                py_compile.compile(p, doraise=True, cfile=os.path.join(d, "x.pyc"))
            except py_compile.PyCompileError:
                continue
            imp = subprocess.run(["/venv/bin/python", "-c", "import pvl, pvl.new, "
                                  "pvl.pvl_validate, pvl.pvl_translate"],
                                 env=dict(os.environ, PYTHONPATH=d), capture_output=True)
            if imp.returncode != 0:
                continue
            b = subprocess.run([os.path.join(VERIF, "tools", "baseline_check.py"), d],
                               capture_output=True, text=True)
            if b.returncode != 0:
                results.append({"file": f, "line": lineno + 1, "old": old.strip(),
                                "new": new.strip(), "killed_by": "repo-tests"})
                print(f"{f}:{lineno+1} killed by the repository's tests", flush=True)
                continue
            done += 1
            t0 = time.time()
            killer = None
            order = RELEVANT[f] + ([c for c in ALL if c not in RELEVANT[f]] if a.all else [])
            for c in order:
                r = subprocess.run([os.path.join(VERIF, "check"), c, "--tier", "quick"],
                                   env=dict(os.environ, VERIF_REPO=d), cwd=VERIF,
                                   capture_output=True, text=True)
                if r.returncode == 1:
                    killer = c
                    break
            results.append({"file": f, "line": lineno + 1, "old": old.strip(),
                            "new": new.strip(), "killed_by": killer,
                            "seconds": round(time.time() - t0)})
            print(f"{f}:{lineno+1} [{old.strip()[:50]!r} -> {new.strip()[:50]!r}] "
                  f"killed_by={killer}", flush=True)
            json.dump(results, open(out_path, "w"), indent=1)
        finally:
            shutil.rmtree(d, ignore_errors=True)
    surv = [r for r in results if r["killed_by"] is None]
    json.dump(surv, open(os.path.join(HERE, f"auto_survivors_seed{a.seed}.json"), "w"),
              indent=1)
    n_t = sum(1 for r in results if r["killed_by"] == "repo-tests")
    print(f"{len(results)} mutants: {n_t} killed by the repo's tests, "
          f"{len(results) - n_t - len(surv)} by checks, {len(surv)} survive")


if __name__ == "__main__":
    main()
