#!/venv/bin/python
"""Kill matrix: apply each seeded mutant to a scratch copy of /repo, confirm
it survives the repository's own stable tests, run the quick checks that
should notice (and optionally all checks) with VERIF_REPO pointing at the
copy.  Usage: run_selftest.py [--all-checks] [mutant-id ...]
Not one of the registered checks; results go to selftest/kill_matrix.json."""
import json
import os
import shutil
import subprocess
import sys
import tempfile
import time

HERE = os.path.dirname(os.path.abspath(__file__))
VERIF = os.path.dirname(HERE)
sys.path.insert(0, HERE)
from mutants import M  # noqa: E402

ALL = [f"C{n:02d}" for n in range(1, 21)]


def main():
    args = [a for a in sys.argv[1:] if not a.startswith("--")]
    all_checks = "--all-checks" in sys.argv
    todo = [m for m in M if not args or m["id"] in args]
    results = []
    subprocess.run([os.path.join(VERIF, "setup.sh")], capture_output=True)
    for mu in todo:
        t0 = time.time()
        d = tempfile.mkdtemp(prefix="pvlmut.", dir="/dev/shm")
        try:
            subprocess.run(["rsync", "-a", "--exclude", ".git", "/repo/", d + "/"],
                           check=True)
            p = os.path.join(d, mu["file"])
            src = open(p).read()
            if src.count(mu["old"]) != 1:
                results.append({"id": mu["id"], "status": "does-not-apply",
                                "occurrences": src.count(mu["old"])})
                print(mu["id"], "DOES NOT APPLY", src.count(mu["old"]))
                continue
            open(p, "w").write(src.replace(mu["old"], mu["new"]))
            b = subprocess.run([os.path.join(VERIF, "tools", "baseline_check.py"), d],
                               capture_output=True, text=True)
            survives = b.returncode == 0
            checks = ALL if all_checks else mu["props"]
            outcome = {}
            for c in checks:
                env = dict(os.environ)
                env["VERIF_REPO"] = d
                r = subprocess.run([os.path.join(VERIF, "check"), c, "--tier", "quick"],
                                   env=env, capture_output=True, text=True,
                                   cwd=VERIF)
                kinds = sorted({ln.split('"kind": "')[1].split('"')[0]
                                for ln in r.stdout.split("\n")
                                if ln.startswith("  violating class") and '"kind": "' in ln})
                outcome[c] = {"rc": r.returncode, "kinds": kinds[:4]}
            killed = [c for c, o in outcome.items() if o["rc"] == 1]
            res = {"id": mu["id"], "expected": mu["props"],
                   "survives_repo_tests": survives,
                   "killed_by": killed, "outcome": outcome,
                   "seconds": round(time.time() - t0, 1)}
            results.append(res)
            print(f"{mu['id']:38s} tests:{'pass' if survives else 'FAIL'} "
                  f"killed_by={killed} "
                  f"missed={[c for c in mu['props'] if c not in killed]}", flush=True)
        finally:
            shutil.rmtree(d, ignore_errors=True)
    out = os.path.join(HERE, "kill_matrix.json")
    prev = []
    if args and os.path.exists(out):
        prev = [r for r in json.load(open(out)) if r["id"] not in args]
    json.dump(prev + results, open(out, "w"), indent=1)
    alive = [r["id"] for r in results if r.get("status") != "does-not-apply"
             and not r["killed_by"]]
    print("not killed:", alive)


if __name__ == "__main__":
    main()
