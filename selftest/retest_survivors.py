#!/venv/bin/python
"""selftest/retest_survivors.py <results.json> [--all]
Re-applies the surviving mutants of an earlier auto_mutate run (located by the
text of the mutated line, not its number) to a /dev/shm copy of the current
/repo and runs the quick checks against each.  Prints what still survives.
Not a registered check."""
import json
import os
import shutil
import subprocess
import sys
import tempfile

HERE = os.path.dirname(os.path.abspath(__file__))
VERIF = os.path.dirname(HERE)
sys.path.insert(0, HERE)
from auto_mutate import RELEVANT, ALL  # noqa: E402

res = json.load(open(sys.argv[1]))
use_all = "--all" in sys.argv
out = []
for r in res:
    if r["killed_by"] is not None:
        continue
    src = open(os.path.join("/repo/pvl", r["file"])).read().split("\n")
    idx = [i for i, ln in enumerate(src) if ln.strip() == r["old"]]
    if not idx:
        print(r["file"], r["line"], "line no longer present"); continue
    # take the occurrence closest to the recorded line
    i = min(idx, key=lambda k: abs(k - (r["line"] - 1)))
    d = tempfile.mkdtemp(prefix="pvlre.", dir="/dev/shm")
    try:
        subprocess.run(["rsync", "-a", "--exclude", ".git", "/repo/", d + "/"], check=True)
        lines = list(src)
        lines[i] = lines[i].replace(r["old"], r["new"])
        open(os.path.join(d, "pvl", r["file"]), "w").write("\n".join(lines))
        b = subprocess.run([os.path.join(VERIF, "tools", "baseline_check.py"), d],
                           capture_output=True, text=True)
        if b.returncode != 0:
            print(r["file"], i + 1, "now killed by repo tests"); continue
        killer = None
        order = RELEVANT[r["file"]] + ([c for c in ALL if c not in RELEVANT[r["file"]]]
                                       if use_all else [])
        for c in order:
            q = subprocess.run([os.path.join(VERIF, "check"), c, "--tier", "quick"],
                               env=dict(os.environ, VERIF_REPO=d), cwd=VERIF,
                               capture_output=True, text=True)
            if q.returncode == 1:
                killer = c
                break
        print(f"{r['file']}:{i+1} [{r['old'][:60]!r} -> {r['new'][:60]!r}] killed_by={killer}",
              flush=True)
        out.append(dict(r, line=i + 1, killed_by=killer))
    finally:
        shutil.rmtree(d, ignore_errors=True)
json.dump(out, open(sys.argv[1].replace(".json", "_retest.json"), "w"), indent=1)
print(sum(1 for o in out if o["killed_by"] is None), "of", len(out), "still survive")
