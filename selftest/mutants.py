"""Seeded mutants for validating the monitors (DESIGN section 6).

Each mutant: (id, [properties expected to notice], file, old, new, note).
`old` must occur exactly once in the file.  Mutants are applied to a scratch
copy of /repo under /dev/shm, never to /repo itself."""

M = []


def m(mid, props, file, old, new, note=""):
    M.append({"id": mid, "props": props, "file": file, "old": old, "new": new,
              "note": note})


# ---- encoder ---------------------------------------------------------------
m("enc-break-on-hyphens", ["C01", "C02"], "pvl/encoder.py",
  "break_on_hyphens=False,", "break_on_hyphens=True,",
  "textwrap may split dates / negative numbers in wrapped sequences")
m("enc-object-written-as-group", ["C01", "C12"], "pvl/encoder.py",
  "            agg_keywords = self.grammar.object_pref_keywords\n",
  "            agg_keywords = self.grammar.group_pref_keywords\n")
m("enc-align-over-all-keys", ["C12"], "pvl/encoder.py",
  "            if not isinstance(v, abc.Mapping):\n                non_agg_key_lengths.append(len(k))",
  "            non_agg_key_lengths.append(len(k))")
m("enc-neg-zero-sign-lost", ["C01"], "pvl/encoder.py",
  "        elif isinstance(value, self.numeric_types):\n            return str(value)",
  "        elif isinstance(value, self.numeric_types):\n            return str(value) if value else str(abs(value))")
m("enc-no-trailing-dash-quoting", ["C02", "C01"], "pvl/encoder.py",
  '        if s.endswith("-"):', '        if False and s.endswith("-"):')
m("enc-decodes-to-itself-off", ["C17", "C01"], "pvl/encoder.py",
  "            return self.decoder.decode_simple_value(s) == s\n",
  "            return True\n")
m("enc-odl-key-not-uppercased", ["C12", "C01"], "pvl/encoder.py",
  "            ident = key.upper()\n", "            ident = key\n")
m("enc-odl-no-final-newline", ["C12"], "pvl/encoder.py",
  "        s = super().encode(module)\n        return s + self.newline\n",
  "        s = super().encode(module)\n        return s\n")
m("enc-tab-replace-skipped", ["C12"], "pvl/encoder.py",
  "        if self.tab_replace > 0:\n            return s.replace",
  "        if self.tab_replace > 4:\n            return s.replace")
m("enc-wrap-uses-lf", ["C12"], "pvl/encoder.py",
  "            return self.newline.join(lines).translate(restore)",
  "            return \"\\n\".join(lines).translate(restore)")
m("enc-pds-ms-not-padded", ["C01", "C14"], "pvl/encoder.py",
  's += f":{value:%S}.{ms:03d}"', 's += f":{value:%S}.{ms}"')
m("enc-pds-replace-by-key", ["C13", "C01"], "pvl/encoder.py",
  "            items = [(k, new if v is old else v) for k, v in module.items()]\n            module.clear()\n            module.extend(items)",
  "            module[key] = new")
m("enc-emptyvalue-as-null", ["C07"], "pvl/encoder.py",
  "        elif isinstance(value, str):\n            return self.encode_string(value)",
  "        elif isinstance(value, str):\n            if hasattr(value, \"lineno\"):\n                return self.grammar.none_keyword\n            return self.encode_string(value)")
m("enc-memoised-last-text", ["C16", "C13"], "pvl/encoder.py",
  "        lines = list()\n        lines.append(self.encode_module(module, 0))\n",
  "        lines = list()\n        if getattr(self, \"_seen\", 0) >= 2:\n            return self._last\n        self._seen = getattr(self, \"_seen\", 0) + 1\n        lines.append(self.encode_module(module, 0))\n        self._last = \"END\"\n")
m("enc-aggregation-end-name-always", ["C12"], "pvl/encoder.py",
  "        if self.aggregation_end:\n            agg_end +=", "        if True:\n            agg_end +=")
m("enc-odl-neg-offset-sign", ["C14", "C01"], "pvl/encoder.py",
  'sign = "-" if offset < datetime.timedelta() else "+"', 'sign = "+"')

# ---- decoder / grammar -------------------------------------------------------
m("dec-real-cls-gets-float", ["C18"], "pvl/decoder.py",
  "                return self.real_cls(str(value))", "                return self.real_cls(float(value))")
m("dec-fold-strip-before-dash", ["C07", "C03"], "pvl/decoder.py",
  '        nodash = re.sub(fr"-[{fe}][{ws}]*", "", s)\n',
  '        nodash = re.sub(fr"-[{fe}][{ws}]*", "", s.strip(ws).replace("  ", " "))\n'
  )
m("dec-odl-offset-sign-ignored", ["C14", "C03"], "pvl/decoder.py",
  '                if gd["sign"] == "-":\n                    offset = -1 * offset',
  '                if gd["sign"] == "~":\n                    offset = -1 * offset')
m("dec-pds-ms-check-removed", ["C14"], "pvl/decoder.py",
  "            and t.microsecond != round(t.microsecond / 1000) * 1000",
  "            and t.microsecond < 0")
m("dec-date-with-offset-typeerror", ["C06", "C17"], "pvl/decoder.py",
  '                if not hasattr(dt, "tzinfo"):', '                if False:')
m("dec-float-words-again", ["C03", "C17"], "pvl/decoder.py",
  "        if self.decimal_re.fullmatch(value) is None:", "        if False:")
m("gram-pvl-char-31-allowed", ["C15"], "pvl/grammar.py",
  "            (14 <= o <= 31)", "            (14 <= o <= 30)")
m("gram-pds-default-tz-none", ["C14", "C01"], "pvl/grammar.py",
  "    # PDSLabels default to UTC:\n    default_timezone = timezone.utc",
  "    # PDSLabels default to UTC:\n    default_timezone = None")
m("gram-leap-year-regex", ["C14"], "pvl/grammar.py",
  '_Y_frag = r"(?P<year>(?!0000)\\d{4})"', '_Y_frag = r"(?P<year>\\d{3}[1-9])"')
m("gram-octal-accepts-8", ["C03"], "pvl/grammar.py",
  'octal_re = re.compile(fr"{_s}(?P<radix>8)#(?P<non_decimal>[0-7]+)#")',
  'octal_re = re.compile(fr"{_s}(?P<radix>8)#(?P<non_decimal>[0-7]+)#?")')

# ---- lexer -------------------------------------------------------------------
m("lex-no-yield-before-reserved", ["C04", "C03"], "pvl/lexer.py",
  "                or next_char in g.reserved_characters\n", "")
m("lex-hash-comment-block-delims", ["C04"], "pvl/lexer.py",
  '        and preserve["end"] in c_info["single_comments"].values()',
  '        and preserve["end"] in ()')
m("lex-lookahead-charset-check-off", ["C15"], "pvl/lexer.py",
  "        if not g.char_allowed(char):\n            raise LexerError(",
  "        if not g.char_allowed(char) and lexeme == \"\":\n            raise LexerError(")
m("lex-error-pos-off-by-one", ["C15"], "pvl/lexer.py",
  "                lexeme + char,\n", "                lexeme,\n")

# ---- parser ------------------------------------------------------------------
m("par-hang-on-stray-equals", ["C06", "C05"], "pvl/parser.py",
  "                    # consumed anything, would loop forever).\n                    tokens.send(t)\n                    raise Exception",
  "                    # consumed anything, would loop forever).\n                    tokens.send(t)")
m("par-setseq-missing-comma-returns", ["C05"], "pvl/parser.py",
  "                    tokens.send(t)\n                    tokens.throw(\n                        ValueError,\n                        \"While parsing, expected a comma (,)\"",
  "                    tokens.send(t)\n                    return set_seq\n                    tokens.throw(\n                        ValueError,\n                        \"While parsing, expected a comma (,)\"")
m("par-lexererror-swallowed-in-value", ["C05"], "pvl/parser.py",
  "        except LexerError:\n            # Not just \"there are no units here\", but a real problem.\n            raise\n",
  "")
m("par-no-wsc-after-equals", ["C04", "C03"], "pvl/parser.py",
  "                raise ParseError('Expecting \"=\", but ran out of tokens.')\n\n        self.parse_WSC_until(None, tokens)\n",
  "                raise ParseError('Expecting \"=\", but ran out of tokens.')\n\n")
m("par-end-name-any", ["C05"], "pvl/parser.py",
  "        if t != block_name:\n", "        if False and t != block_name:\n")
m("par-emptyvalue-find-not-rfind", ["C08"], "pvl/parser.py",
  'eq_pos = self.doc.rfind("=", 0, pos)', 'eq_pos = self.doc.find("=", 0, pos)')
m("par-errors-not-reset", ["C16"], "pvl/parser.py",
  "        self.doc = s\n        self.errors = []\n", "        self.doc = s\n")
m("par-pull-after-end", ["C09"], "pvl/parser.py",
  "                raise ValueError(\n                    \"Expecting an End Statement, like \"\n",
  "                raise ValueError(\n                    \"Expecting an End Statement, like \"\n",
  "placeholder (replaced below)")
m("par-object-uses-group-class", ["C18", "C03"], "pvl/parser.py",
  "            if begin_fold == ok.casefold():\n                return self.objcls()",
  "            if begin_fold == ok.casefold():\n                return self.objcls() if type(self).__name__ != \"ODLParser\" else PVLObject()")
m("par-odl-units-any-value", ["C05"], "pvl/parser.py",
  "        if isinstance(value, numeric) and not isinstance(value, bool):",
  "        if True:")

# ---- collections ---------------------------------------------------------------
m("col-setitem-keeps-later-dups", ["C10"], "pvl/collections.py",
  "        tail = [item for item in iteritems if item[0] != key]", "        tail = [item for item in iteritems]")
m("col-pop-leaves-empty-key", ["C10"], "pvl/collections.py",
  "            if not values:\n                dict_delitem(self, key)\n", "")
m("col-insert-dict-order", ["C10"], "pvl/collections.py",
  "                value_list = [val for k, val in self.__items if k == key]",
  "                value_list = dict_getitem(self, key) + [value]")
m("col-copy-is-self", ["C11"], "pvl/collections.py",
  "    def copy(self):\n        return type(self)(self)", "    def copy(self):\n        return self")
m("col-reduce-drops-dups", ["C11"], "pvl/collections.py",
  "        return type(self), (list(self.__items),), state or None",
  "        return type(self), (dict(self.__items),), state or None")
m("col-eq-ignores-order", ["C10"], "pvl/collections.py",
  "        for ((key1, value1), (key2, value2)) in zip(items1, items2):\n            if key1 != key2:\n                return False",
  "        for ((key1, value1), (key2, value2)) in zip(sorted(items1, key=repr), sorted(items2, key=repr)):\n            if key1 != key2:\n                return False")

# ---- entry points / tools ----------------------------------------------------------
m("init-decode-by-char-single-bytes", ["C09"], "pvl/__init__.py",
  "                s += decoder.decode(elem)", "                s += elem.decode()")
m("init-dump-binary-returns-chars", ["C09"], "pvl/__init__.py",
  "                return path.write(dumps(module, **kwargs).encode())",
  "                path.write(dumps(module, **kwargs).encode())\n                return len(dumps(module, **kwargs))")
m("new-loads-old-module-class", ["C19"], "pvl/new.py",
  "            module_class=PVLModuleNew,\n", "")
m("translate-isis-uses-pvl-encoder", ["C20"], "pvl/pvl_translate.py",
  "    ISIS=PVLWriter(ISISEncoder()),", "    ISIS=PVLWriter(PVLEncoder()),")
m("validate-encode-failure-as-load", ["C20"], "pvl/pvl_validate.py",
  "        except (LexerError, ParseError, ValueError, TypeError) as err:",
  "        except (LexerError, ParseError) as err:")
m("validate-many-cells-swapped", ["C20"], "pvl/pvl_validate.py",
  "                    loads[r[1][f][0]], encodes[r[1][f][1]], w2=col2w, w3=col3w",
  "                    loads[r[1][f][0]], encodes[r[1][flavors[0]][1]], w2=col2w, w3=col3w")

# replace the placeholder with a real "token requested after END" mutant
for x in M:
    if x["id"] == "par-pull-after-end":
        x["old"] = "        except StopIteration:\n            pass\n\n        return\n\n    def parse_assignment_statement"
        x["new"] = ("            try:\n                t = next(tokens)\n                tokens.send(t)\n"
                    "            except LexerError:\n                pass\n"
                    "        except StopIteration:\n            pass\n\n        return\n\n    def parse_assignment_statement")
        x["note"] = "re-enables the peek after END that issue 104 removed"

# ---- added after the reach report (lines no workload had driven before) ------------
m("enc-odl-offset-seconds-truncated", ["C14"], "pvl/encoder.py",
  "            if s != datetime.timedelta():", "            if False:")
m("enc-pds-plain-dict-conversion-replaces-wrong-key", ["C13"], "pvl/encoder.py",
  "        else:\n            module[key] = new\n",
  "        else:\n            module[key] = new\n            module[key + \"_converted\"] = True\n")
m("enc-odl-empty-sequence-allowed", ["C12"], "pvl/encoder.py",
  "        if len(value) == 0:\n            raise ValueError(\"ODL does not allow empty Sequences.\")",
  "        if len(value) == 1:\n            raise ValueError(\"ODL does not allow empty Sequences.\")")
m("enc-pds-set-restriction-dropped", ["C12"], "pvl/encoder.py",
  "            if not self.is_symbol(v) and not isinstance(v, int):", "            if False:")
m("enc-odl-set-scalar-restriction-dropped", ["C12"], "pvl/encoder.py",
  "        if not all(map(self.is_scalar, values)):", "        if False:")
m("enc-pds-default-symbol-double-quoted", ["C12"], "pvl/encoder.py",
  "        symbol_single_quote=True,\n        time_trailing_z=True,\n    ):",
  "        symbol_single_quote=False,\n        time_trailing_z=True,\n    ):")
m("enc-pds-count-aggs-ignores-custom-group-class", ["C12"], "pvl/encoder.py",
  "                if isinstance(v, self.grpcls):\n", "                if isinstance(v, PVLGroup):\n")
