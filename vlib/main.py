"""Entry point: python -m vlib.main Cxx [--tier T] [--shard i/n] [--replay P]"""
import argparse
import importlib
import json
import os
import sys
import time
import traceback

from . import common


def main(argv=None):
    ap = argparse.ArgumentParser()
    ap.add_argument("prop")
    ap.add_argument("--tier", default=None)
    ap.add_argument("--shard", default=None)
    ap.add_argument("--replay", default=None)
    ap.add_argument("--serial", action="store_true",
                    help="run all shards in this process (debugging)")
    a = ap.parse_args(argv)

    prop = a.prop.upper()
    if a.tier:
        os.environ["VERIF_TIER"] = a.tier
    tier = common.tier()
    seed = common.seed()
    mod = importlib.import_module(f"vlib.props.{prop.lower()}")

    if a.replay:
        common.import_pvl()
        with open(a.replay) as f:
            data = json.load(f)
        return mod.replay(data)

    if a.shard:
        i, n = (int(x) for x in a.shard.split("/"))
        common.import_pvl()
        rec = common.Rec()
        hb = common.Heartbeat(i)
        if not getattr(mod, "OWN_HISTORY", False):
            # every second worker first lives through a history of ordinary
            # calls in other dialects and configurations (vlib/prelude.py)
            from . import prelude
            what = prelude.hostile_history(common.import_pvl(), i)
            rec.count("workers_with_a_hostile_history" if what
                      else "workers_starting_fresh")
            hb.beat()
        try:
            mod.shard(i, n, tier, seed, rec, hb)
        except common.EnoughViolations:
            rec.count("worker_stopped_early_by_VERIF_FAILFAST")
        common.write_shard_result(i, rec)
        return 0

    t0 = time.time()
    n = mod.nshards(tier) if hasattr(mod, "nshards") else common.ncpu()
    if hasattr(mod, "prepare"):
        mod.prepare(tier, seed)
    if a.serial or n == 1:
        common.import_pvl()
        rec = common.Rec()
        hb = common.Heartbeat(0)
        for i in range(n):
            mod.shard(i, n, tier, seed, rec, hb)
    else:
        rec = common.run_sharded(
            prop, n, stall_s=getattr(mod, "STALL_S", 900)
        )
    kw = mod.finish_kwargs(rec, tier) if hasattr(mod, "finish_kwargs") else {}
    kw.setdefault("rule", getattr(mod, "RULE", ""))
    return common.finish(prop, rec, tier_name=tier, seed_value=seed, t0=t0,
                         **kw)


if __name__ == "__main__":
    try:
        rc = main()
    except SystemExit:
        raise
    except BaseException:
        traceback.print_exc()
        print("INCONCLUSIVE: harness error (not a verdict)")
        rc = common.EXIT_INCONCLUSIVE
    sys.exit(rc)
