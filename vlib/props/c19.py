"""C19 - pvl.new loaders return the same content as the default loaders.

Differential monitor: pvl.new.loads(t) vs pvl.loads(t) on well-formed
generated texts and the tests/data corpus: success iff success, identical
(name, value) sequences at every level with the New container classes,
identical errors, and identical dumps for each of the four encoders and for
the no-argument dumps."""
import io
import os
import random

from .. import common
from .. import gen_text as gt
from ..normalise import clone

CHECK = "C19"
RULE = (
    "well-formed default-dialect documents from the free-spelling/free-layout "
    "generator and every tests/data label; pvl.new.loads vs pvl.loads; then "
    "4 encoders (built with the New group/object classes on the new side) + "
    "the no-argument dumps; plus the same optional loader arguments (grammar=, "
    "decoder= with real_cls / quantity_cls, matching and mixed dialects) on "
    "both sides, configurations interleaved in one process. distinct = (text id); non-trivial = text has at "
    "least one statement"
)
NEWNAME = {"PVLModule": "PVLModuleNew", "PVLGroup": "PVLGroupNew",
           "PVLObject": "PVLObjectNew"}


def nshards(tier):
    return 16


def items_of(c):
    if hasattr(c, "getall") and not isinstance(c, dict):
        return list(c.items())         # PVLMultiDict: items() are the pairs
    return list(c)


def same(old, new, path="$"):
    """old: default containers, new: New containers."""
    if isinstance(old, dict):
        want = NEWNAME.get(type(old).__name__)
        if type(new).__name__ != want:
            return (path, f"class {type(new).__name__}, expected {want}")
        a, b = list(old), items_of(new)
        if len(a) != len(b):
            return (path, f"{len(a)} items vs {len(b)}")
        for i, ((k1, v1), (k2, v2)) in enumerate(zip(a, b)):
            if k1 != k2:
                return (f"{path}[{i}]", f"name {k1!r} vs {k2!r}")
            r = same(v1, v2, f"{path}[{i}]{k1}")
            if r:
                return r
        return None
    if hasattr(new, "getall") and not isinstance(new, dict):
        return (path, "value became a container")
    if type(old) is not type(new) and not (
            isinstance(old, str) and isinstance(new, str)):
        return (path, f"type {type(old).__name__} vs {type(new).__name__}")
    if isinstance(old, list):
        if len(old) != len(new):
            return (path, "sequence length")
        for i, (x, y) in enumerate(zip(old, new)):
            r = same(x, y, f"{path}[{i}]")
            if r:
                return r
        return None
    if type(old).__name__ == "Quantity":
        return same(old.value, new.value, path + ".value") or (
            None if old.units == new.units else (path, "units"))
    if old != new and not (old != old and new != new):
        return (path, f"{old!r} vs {new!r}")
    if isinstance(old, str) and getattr(old, "lineno", None) != getattr(new, "lineno", None):
        return (path, "placeholder line numbers differ")
    return None


def outcome(fn):
    try:
        with common.cpu_limit(60):
            return ("ok", fn())
    except common.CaseTimeout:
        return ("timeout", None)
    except Exception as e:
        return ("exc", type(e).__name__, str(e)[:200])


def case(rec, pvl, new, text, src, wit):
    E = pvl.encoder
    col = pvl.collections
    o = outcome(lambda: pvl.loads(text))
    n = outcome(lambda: new.loads(text))
    rec.case((src,), True, sample={"source": src, "text": text[:300]}
             if rec.c["evaluations"] % 601 == 0 else None)
    if "timeout" in (o[0], n[0]):
        rec.inconc("CPU budget exceeded " + src)
        return
    if o[0] != n[0]:
        rec.violation(CHECK, "loads", "success-differs",
                      {"default": o[0], "new": n[0],
                       "new_exc": n[1] if n[0] == "exc" else None}, wit,
                      f"pvl.loads: {o[:2]!r:.150}; pvl.new.loads: {n[:2]!r:.150}")
        return
    if o[0] == "exc":
        rec.count("both_fail")
        if o[1] != n[1]:
            rec.violation(CHECK, "loads", "exception-class-differs",
                          {"default": o[1], "new": n[1]}, wit, "")
        return
    rec.count("both_load")
    old_m, new_m = o[1], n[1]
    d = same(old_m, new_m)
    if d:
        rec.violation(CHECK, "loads", "content-differs", {}, wit, f"{d[0]}: {d[1]}")
        return
    if list(getattr(old_m, "errors", [])) != list(getattr(new_m, "errors", [])):
        rec.violation(CHECK, "loads", "errors-differ", {}, wit,
                      f"{old_m.errors} vs {new_m.errors}")
        return
    rec.count("content_equal")
    # the other ways in: bytes, an open text stream; and dump to a stream
    data = text.encode("utf-8")
    # bytes that are not all decodable: image data behind END, and a stray
    # undecodable byte somewhere in the middle of the text (whatever the
    # default loader makes of it, the new one has to make the same)
    tailed = data + b" \nEND\n\xff\xfe\x00\x81" + b"\x00" * 20   # (blank: no dash continuation)
    cut = (len(data) * 2) // 3
    nl = data.find(b"\n", cut)
    cut = nl + 1 if nl >= 0 else cut
    broken = data[:cut] + b"\xff\xfe" + data[cut:]
    for rname, fo, fn in (
            ("loads(bytes)", lambda: pvl.loads(data), lambda: new.loads(data)),
            ("loads(bytes+data)", lambda: pvl.loads(tailed), lambda: new.loads(tailed)),
            ("loads(bytes with a bad byte inside)", lambda: pvl.loads(broken),
             lambda: new.loads(broken)),
            ("load(binary stream+data)", lambda: pvl.load(io.BytesIO(tailed)),
             lambda: new.load(io.BytesIO(tailed))),
            ("load(binary stream with a bad byte inside)",
             lambda: pvl.load(io.BytesIO(broken)), lambda: new.load(io.BytesIO(broken))),
            ("load(text stream)", lambda: pvl.load(io.StringIO(text)),
             lambda: new.load(io.StringIO(text))),
            ("load(binary stream)", lambda: pvl.load(io.BytesIO(data)),
             lambda: new.load(io.BytesIO(data)))):
        a, b = outcome(fo), outcome(fn)
        rec.count(f"route[{rname}]")
        if a[0] != b[0]:
            rec.violation(CHECK, rname, "success-differs",
                          {"default": a[0], "new": b[0],
                           "new_exc": b[1] if b[0] == "exc" else None}, wit,
                          f"{a[:2]!r:.150} vs {b[:2]!r:.150}")
        elif a[0] == "ok":
            d = same(a[1], b[1])
            if d:
                rec.violation(CHECK, rname, "content-differs", {}, wit,
                              f"{d[0]}: {d[1]}")

    def to_stream(mod, m):
        out = io.StringIO()
        mod.dump(m, out)
        return out.getvalue()
    a = outcome(lambda: to_stream(pvl, pvl.loads(text)))
    b = outcome(lambda: to_stream(new, new.loads(text)))
    rec.count("route[dump(text stream)]")
    if a[0] != b[0] or (a[0] == "ok" and a[1] != b[1]):
        rec.violation(CHECK, "dump(text stream)", "text-differs", {}, wit,
                      f"{a!r:.200} vs {b!r:.200}")
    encs = {
        "noargs": (lambda m: pvl.dumps(m), lambda m: new.dumps(m)),
    }
    # keyword arguments configure the default (PDS3) encoder on both sides
    for kw in ({"indent": 4, "width": 40}, {"aggregation_end": False},
               {"convert_group_to_object": False}, {"tab_replace": 0, "indent": 0},
               {"symbol_single_quote": False, "time_trailing_z": False}):
        encs["kwargs:" + ",".join(sorted(kw))] = (
            lambda m, kw=kw: pvl.dumps(m, **kw), lambda m, kw=kw: new.dumps(m, **kw))
    for name, cls in (("PVL", E.PVLEncoder), ("ODL", E.ODLEncoder),
                      ("PDS3", E.PDSLabelEncoder), ("ISIS", E.ISISEncoder)):
        encs[name] = (
            lambda m, cls=cls: pvl.dumps(m, encoder=cls()),
            lambda m, cls=cls: new.dumps(m, encoder=cls(
                group_class=col.PVLGroupNew, object_class=col.PVLObjectNew)))
    for name, (fo, fn) in encs.items():
        a = outcome(lambda: fo(pvl.loads(text)))
        b = outcome(lambda: fn(new.loads(text)))
        rec.count(f"dumps_compared[{name}]")
        if a[0] != b[0]:
            rec.violation(CHECK, "dumps:" + name, "refusal-differs",
                          {"default": a[0], "new": b[0],
                           "new_exc": b[1] if b[0] == "exc" else None}, wit,
                          f"{a!r:.200} vs {b!r:.200}")
        elif a[0] == "ok" and a[1] != b[1]:
            rec.violation(CHECK, "dumps:" + name, "text-differs", {}, wit,
                          f"{a[1]!r:.200} vs {b[1]!r:.200}")
        elif a[0] == "ok":
            rec.count("dump_texts_identical")


class _Q:
    """Recording quantity class for quantity_cls= (compared by content)."""

    def __init__(self, value, units):
        self.value, self.units = value, units

    def __eq__(self, other):
        return isinstance(other, _Q) and (self.value, self.units) == \
            (other.value, other.units)

    def __ne__(self, other):
        return not self.__eq__(other)

    def __hash__(self):
        return hash((repr(self.value), self.units))

    def __repr__(self):
        return f"_Q({self.value!r}, {self.units!r})"


def kwarg_configs(pvl):
    """Loader keyword arguments that both pvl.loads and pvl.new.loads accept;
    each entry builds *fresh* objects (one set per side)."""
    import decimal
    G, D = pvl.grammar, pvl.decoder
    return [
        ("grammar=Omni", lambda: dict(grammar=G.OmniGrammar())),
        ("grammar=PVL", lambda: dict(grammar=G.PVLGrammar())),
        ("grammar=ISIS", lambda: dict(grammar=G.ISISGrammar())),
        ("decoder=Omni", lambda: dict(decoder=D.OmniDecoder())),
        ("decoder=Omni(Decimal)", lambda: dict(decoder=D.OmniDecoder(
            real_cls=decimal.Decimal))),
        ("decoder=Omni(Q)", lambda: dict(decoder=D.OmniDecoder(quantity_cls=_Q))),
        ("decoder=PVL", lambda: dict(decoder=D.PVLDecoder())),
        ("decoder=PVL(Decimal)", lambda: dict(decoder=D.PVLDecoder(
            real_cls=decimal.Decimal))),
        ("decoder=ODL", lambda: dict(decoder=D.ODLDecoder())),
        ("decoder=PDS3", lambda: dict(decoder=D.PDSLabelDecoder())),
        ("grammar=Omni,decoder=PVL", lambda: dict(grammar=G.OmniGrammar(),
                                                  decoder=D.PVLDecoder())),
        ("grammar=PVL,decoder=Omni", lambda: dict(grammar=G.PVLGrammar(),
                                                  decoder=D.OmniDecoder())),
        ("grammar=ISIS,decoder=ODL", lambda: dict(grammar=G.ISISGrammar(),
                                                  decoder=D.ODLDecoder())),
        ("grammar=PVL,decoder=ODL(Decimal)", lambda: dict(
            grammar=G.PVLGrammar(), decoder=D.ODLDecoder(real_cls=decimal.Decimal))),
        ("grammar=Omni,decoder=Omni(Q)", lambda: dict(
            grammar=G.OmniGrammar(), decoder=D.OmniDecoder(quantity_cls=_Q))),
    ]


def kwargs_case(rec, pvl, new, text, src, wit, rng, k=3):
    """The same optional arguments handed to both loaders; the configurations
    follow each other in one process in a random order, so anything one call
    parks in the module (a cached parser, a grammar lent to a decoder) shows in
    a later call as a difference from pvl.loads."""
    cfgs = kwarg_configs(pvl)
    for name, make in rng.sample(cfgs, k):
        order = rng.random() < 0.5
        if order:
            o = outcome(lambda: pvl.loads(text, **make()))
            n = outcome(lambda: new.loads(text, **make()))
        else:
            n = outcome(lambda: new.loads(text, **make()))
            o = outcome(lambda: pvl.loads(text, **make()))
        rec.count(f"kwargs[{name}]")
        w2 = dict(wit, kwargs=name)
        if "timeout" in (o[0], n[0]):
            rec.inconc("CPU budget exceeded " + src)
            continue
        if o[0] != n[0]:
            rec.violation(CHECK, "loads(**kwargs)", "success-differs",
                          {"default": o[0], "new": n[0], "kwargs": name,
                           "new_exc": n[1] if n[0] == "exc" else None}, w2,
                          f"pvl.loads: {o[:2]!r:.150}; pvl.new.loads: {n[:2]!r:.150}")
            continue
        if o[0] == "exc":
            rec.count("kwargs_both_fail")
            if o[1] != n[1]:
                rec.violation(CHECK, "loads(**kwargs)", "exception-class-differs",
                              {"default": o[1], "new": n[1], "kwargs": name}, w2, "")
            continue
        d = same(o[1], n[1])
        if d:
            rec.violation(CHECK, "loads(**kwargs)", "content-differs",
                          {"kwargs": name}, w2, f"{d[0]}: {d[1]}")
            continue
        rec.count("kwargs_content_equal")


def shard(i, n, tier, seed, rec, hb):
    pvl = common.import_pvl()
    try:
        import pvl.new as new
    except Exception as e:
        rec.inconc(f"pvl.new cannot be imported: {e!r}")
        return
    total = 1500 if tier == "quick" else 100000
    for j in range(i, total, n):
        hb.beat()
        key = f"C19-{seed}-{j}"
        rng = random.Random(key)
        while True:
            doc = gt.gen_document(rng, "default", max_top=5)
            if not any(c == "seq-inside-set" for c, _ in doc.meta):
                break
        text = gt.render(doc.tokens, gt.gen_layout(rng, doc.tokens, "default", "wild"))
        case(rec, pvl, new, text, key, {"seed": key, "text": text[:1500]})
        kwargs_case(rec, pvl, new, text, key, {"seed": key, "text": text[:1500]}, rng)
    root = os.path.join(common.REPO, "tests", "data")
    files = []
    for dp, dn, fn in os.walk(root):
        for f in sorted(fn):
            files.append(os.path.join(dp, f))
    for k, p in enumerate(sorted(files)):
        if k % n != i:
            continue
        if os.sep + "broken" + os.sep in p:
            continue        # not well-formed: outside the property's quantifier
        hb.beat()
        try:
            text = pvl.get_text_from(p)
        except Exception:
            continue
        name = os.path.relpath(p, root)
        rec.count("corpus_files")
        case(rec, pvl, new, text, "corpus:" + name, {"file": name})
        kwargs_case(rec, pvl, new, text, "corpus:" + name, {"file": name},
                    random.Random(f"C19-kw-{seed}-{name}"), k=6)


def finish_kwargs(rec, tier):
    return dict(required_counters=("both_load", "content_equal", "corpus_files",
                                   "dump_texts_identical", "dumps_compared[noargs]",
                                   "dumps_compared[PDS3]", "kwargs_content_equal",
                                   "kwargs[decoder=Omni(Decimal)]",
                                   "kwargs[grammar=Omni,decoder=PVL]"),
                assumptions=["multidict 6.8.0 (pure-Python module) as installed; "
                             "texts with missing values and other ill-formed "
                             "texts are outside the property's quantifier"])


def replay(data):
    pvl = common.import_pvl()
    import pvl.new as new
    rec = common.Rec()
    for w in data["witnesses"]:
        w = w["witness"]
        if "text" not in w:
            print(w)
            continue
        case(rec, pvl, new, w["text"], "replay", w)
        kwargs_case(rec, pvl, new, w["text"], "replay", w, random.Random(0),
                    k=len(kwarg_configs(pvl)))
    for ent in rec.viol.values():
        print("VIOLATES:", ent["record"], ent["witnesses"][0]["message"][:300])
    return 1 if rec.viol else 0
