"""C10 - multi-dict list view and mapping view agree after any history.

Monitors: (1) list-of-pairs shadow model run in lock-step with the real
container, every public accessor compared after every step; (2) an
icontract invariant "dict storage == item list" on the real class, active
during (1) and while the repository's own collection tests run.
Workloads: breadth-first exploration of all operation instances from every
distinct reachable state (bounded depth), random long histories with nested
values, the repository's tests/test_collections.py under the invariant.
"""
import collections
import json
import os
import random
import subprocess
import sys
import warnings

from .. import common, contracts
from ..mdmodel import (Model, apply_model, apply_real, compare_views,
                       pairs_of_insert_arg)

RULE = (
    "BFS: every op instance (~75 over keys {a,b} x values {1,2}) applied to "
    "every distinct reachable item-list state up to the depth bound, real "
    "container rebuilt by replaying the shortest history; random: histories "
    "of <=40 ops over 4 keys with nested containers as values. A case is one "
    "(state, op) transition / one random history step; distinct = distinct "
    "(class, pre-state, op) triples; plus histories over up to three live "
    "containers built from one another (constructor, copy(), extend / insert "
    "with a container as the source), all compared after every step; non-trivial = the op changed the list, "
    "raised, or returned a value."
)
CLASSES = ("OrderedMultiDict", "PVLModule", "PVLGroup", "PVLObject")


def nshards(tier):
    return 8 if tier == "quick" else 16


def op_universe():
    K, V = ("a", "b"), (1, 2)
    ops = []
    for k in K:
        for v in V:
            ops.append(("append", k, v))
            ops.append(("setitem", k, v))
            ops.append(("extend", [(k, v)], {}))
    ops += [
        ("extend", [("a", 1), ("b", 2)], {}),
        ("extend", [("b", 1), ("b", 1)], {}),
        ("extend", {"a": 2}, {}),
        ("extend", {"b": 1, "a": 1}, {}),
        ("extend", None, {"a": 2}),
        ("extend", [], {}),
        ("extend", [("a", 1)], {"b": 2}),
    ]
    for i in (0, 1, -1, -2, 7):
        ops.append(("insert3", i, "a", 1))
        ops.append(("insert3", i, "b", 2))
    for i in (0, 1, -1, 2):
        ops.append(("insert2", i, ("a", 2)))
        ops.append(("insert2", i, [("a", 1), ("b", 2)]))
        ops.append(("insert2", i, [("b", 2), ("b", 1), ("a", 1)]))
        ops.append(("insert2", i, {"b": 1}))
    ops.append(("insert2", "0", ("a", 1)))  # TypeError: index not an int
    ops.append(("insert2", 0, ["a", 1]))                 # one pair written as a list
    ops.append(("insert2", 1, [["b", 2], ["a", 1]]))     # pairs written as lists
    ops.append(("insert_after", "a", [["b", 1]], 0))
    ops.append(("insert_iter", 0, [("a", 1), ("b", 2)]))
    ops.append(("insert_iter", 1, [("b", 1)]))
    # refused part-way: a sequence of pairs with a malformed element that is
    # not the first one (TypeError; the container must be left as it was)
    for i in (0, 1, -1):
        ops.append(("insert2", i, [("a", 1), ("b",)]))
        ops.append(("insert2", i, [("b", 2), ("a", 1), 2]))
        ops.append(("insert2", i, [("a", 2), ("b", 1, 0)]))
    for name in ("insert_before", "insert_after"):
        ops.append((name, "a", [("b", 1), ("a",)], 0))
    for name in ("insert_before", "insert_after"):
        for k in K:
            for inst in (0, 1, -1):
                ops.append((name, k, ("b", 1), inst))
                ops.append((name, k, [("a", 2), ("b", 2)], inst))
    for k in K:
        ops += [
            ("delitem", k), ("pop1", k), ("pop2", k, "d"), ("popall1", k),
            ("popall2", k, "d"), ("discard", k), ("setdefault1", k),
            ("setdefault", k, 2), ("setdefault", k, 1),
        ]
    ops += [
        ("pop0",), ("popitem",), ("clear",),
        ("update", {"a": 2}, {}),
        ("update", [("b", 1), ("a", 1)], {}),
        ("update", [("a", 1), ("a", 2)], {}),
        ("update", None, {"b": 2}),
        ("update", {}, {}),
    ]
    return ops


def op_features(op, model_before):
    name = op[0]
    f = {"op": name}
    if name in ("insert2", "insert3"):
        idx = op[1]
        if isinstance(idx, int):
            f["neg_index"] = idx < 0
            f["index_beyond_len"] = idx > len(model_before.items)
        if name == "insert2":
            try:
                f["multi_pair"] = len(pairs_of_insert_arg(op[2])) > 1
            except Exception:
                f["multi_pair"] = False
    if name in ("setdefault", "setdefault1", "pop1", "pop2", "popall1",
                "popall2", "delitem", "discard", "setitem"):
        f["key_present"] = model_before.has(op[1])
        f["key_duplicated"] = (
            sum(1 for k in model_before.keys() if k == op[1]) > 1
        )
    return f


def fresh(cls, state):
    """The real container in list-state *state*, built by its constructor."""
    with warnings.catch_warnings():
        warnings.simplefilter("ignore")
        return cls([tuple(p) for p in state])


def check_step(rec, clsname, cls, c, m, op, m_before, probe_keys,
               probe_values, workload, witness):
    """Apply *op* to real and model, compare everything. True if clean."""
    feats = op_features(op, m_before)
    if op[0] == "insert_iter":
        # a one-shot iterator of pairs: either refused (TypeError, nothing
        # changed) or taken like the list of the same pairs - never half of it
        try:
            c.insert(op[1], iter(list(op[2])))
            got = ("ok", None)
        except contracts.InvariantBroken as e:
            rec.violation("C10", clsname, "invariant-broken-by-op", feats,
                          witness, str(e))
            return False
        except TypeError:
            got = ("exc", "TypeError")
        except Exception as e:
            got = ("exc", type(e).__name__)
        op = ("insert2", op[1], list(op[2])) if got[0] == "ok" else ("extend", [], {})
        exp = apply_model(m, op)
        exp = got if got == ("exc", "TypeError") else exp
        return _after_op(rec, clsname, cls, c, m, op, feats, witness, exp, got,
                         probe_keys, probe_values)
    try:
        got = apply_real(c, op)
    except contracts.InvariantBroken as e:
        rec.violation("C10", clsname, "invariant-broken-by-op", feats,
                      witness, str(e))
        return False
    except Exception as e:  # an exception type the model never predicts
        got = ("exc", type(e).__name__)
    exp = apply_model(m, op)
    return _after_op(rec, clsname, cls, c, m, op, feats, witness, exp, got,
                     probe_keys, probe_values)


def _after_op(rec, clsname, cls, c, m, op, feats, witness, exp, got, probe_keys,
              probe_values):
    clean = True
    if exp != got:
        rec.violation(
            "C10", clsname, "op-result", feats, witness,
            f"op {op!r}: documented outcome {exp!r}, real {got!r}")
        clean = False
    try:
        bad = compare_views(c, m, probe_keys, probe_values, rec.c)
    except contracts.InvariantBroken as e:
        bad = [("invariant", True, str(e))]
    if bad:
        feats2 = dict(feats)
        feats2["first_accessor"] = bad[0][0].split("(")[0].split("[")[0]
        rec.violation(
            "C10", clsname, "views-disagree-with-list", feats, witness,
            f"after {op!r}: {bad[:4]}")
        clean = False
    if clean:
        # equality: same class, equal lists <=> ==
        try:
            with warnings.catch_warnings():
                warnings.simplefilter("ignore")
                twin = cls(list(m.items))
                eq1 = (c == twin) and not (c != twin) and (twin == c)
                other = list(m.items)
                if other:
                    k, v = other[-1]
                    variants = [other[:-1], other[:-1] + [(k, (v, "x"))],
                                other[:-1] + [(k + "x", v)],
                                list(reversed(other))
                                if other != list(reversed(other)) else other[:-1]]
                else:
                    variants = [[("a", 1)]]
                ne = all((c != cls(x)) and not (c == cls(x)) for x in variants)
                # values that are equal without being the same: the lists are
                # equal, so the containers are
                swap = {0: -0.0, 1: 1.0, 2: 2.0, 3: 3.0, -0.0: 0.0, True: 1}
                mapped = [(k, swap.get(v, v) if isinstance(v, (int, float)) and
                           not isinstance(v, bool) else v) for k, v in m.items]
                if mapped != [] and list(m.items) == mapped and any(
                        type(a[1]) is not type(b[1]) or repr(a[1]) != repr(b[1])
                        for a, b in zip(m.items, mapped)):
                    rec.count("equality_checks_with_equal_but_different_values")
                    eq1 = eq1 and (c == cls(mapped)) and not (c != cls(mapped))
            rec.count("equality_checks", 1 + len(variants))
            if not (eq1 and ne):
                rec.violation("C10", clsname, "equality", {"cls": clsname},
                              witness, f"eq={eq1} ne={ne} list={m.items!r}")
                clean = False
        except contracts.InvariantBroken as e:
            rec.violation("C10", clsname, "invariant-broken-by-op", feats,
                          witness, "during equality " + str(e))
            clean = False
    return clean


def bfs(rec, hb, clsname, cls, depth, max_states, part, nparts):
    ops = op_universe()
    start = ()
    seen = {start: ()}
    frontier = [start]
    transitions = 0
    complete = True
    for d in range(depth):
        nxt = []
        for si, state in enumerate(frontier):
            hist = seen[state]
            for oi, op in enumerate(ops):
                # the transition is *checked* by exactly one shard, but every
                # shard follows the model to enumerate the same state space
                mine = ((si * len(ops) + oi) % nparts) == part
                m = Model(state)
                if mine:
                    hb.beat()
                    wit = {"cls": clsname, "state": list(state), "op": op,
                           "a_history_reaching_state": list(hist)}
                    try:
                        c = fresh(cls, state)
                    except contracts.InvariantBroken as e:
                        rec.violation("C10", clsname, "constructor",
                                      {"cls": clsname}, wit, str(e))
                        continue
                    mb = Model(state)
                    before = len(rec.viol)
                    check_step(rec, clsname, cls, c, m, op, mb, ("a", "b", "zz"),
                               (1, 2, "d"), "bfs", wit)
                    transitions += 1
                    ok = ("exc",)  # nontrivial unless a silent no-op
                    nontrivial = tuple(m.items) != state or True
                    rec.case(("bfs", clsname, state, repr(op)), nontrivial,
                             sample=wit if transitions % 9973 == 1 else None)
                else:
                    apply_model(m, op)
                new = tuple(m.items)
                if new not in seen:
                    if len(seen) >= max_states:
                        complete = False
                        continue
                    seen[new] = hist + (op,)
                    nxt.append(new)
        frontier = nxt
    rec.count("bfs_transitions_checked", transitions)
    rec.maxi(f"bfs_states[{clsname}]", len(seen))
    rec.maxi(f"bfs_depth[{clsname}]", depth)
    if not complete:
        rec.count("bfs_truncated_by_state_cap")
    return len(seen), complete


def random_histories(rec, hb, rng, classes, n_hist, pvl):
    # (one key has characters at its ends that str.strip() would remove)
    K = ("ka", "kb", "kc", "d", "\xa0e ", "")   # (also the empty string: a falsy key)
    col = pvl.collections

    def val():
        r = rng.random()
        if r < 0.45:
            return rng.choice((1, 2, 3, 0, 0.0, -0.0))
        if r < 0.6:
            return rng.choice(("x", "", "a"))
        if r < 0.7:
            return rng.choice((None, False, True))
        if r < 0.8:
            return [1, "x"]
        if r < 0.9:
            return col.PVLGroup([("a", 1)])
        return col.PVLObject([("g", col.PVLGroup()), ("a", 1), ("a", 2)])

    def fresh(k):
        # an equal key that is another object (what a parser, str.join or an
        # f-string hand over); single characters and "" are shared by CPython
        return "".join(list(k)) if len(k) > 1 else k

    def pair():
        return (fresh(rng.choice(K)), val())

    def rand_op(n):
        r = rng.random()
        idx = rng.randint(-n - 2, n + 2)
        if r < 0.14:
            return ("append",) + pair()
        if r < 0.22:
            return ("setitem",) + pair()
        if r < 0.30:
            return ("insert3", idx) + pair()
        if r < 0.38:
            k = rng.randint(0, 3)
            arg = [pair() for _ in range(k)] if k != 1 else pair()
            if k == 2 and rng.random() < 0.3:
                arg = {rng.choice(K): val()}
            if k == 1 and rng.random() < 0.4:
                arg = list(arg)              # one pair written as a list
            elif k >= 2 and rng.random() < 0.3 and isinstance(arg, list):
                arg = [list(p) for p in arg]  # pairs written as lists
            if k >= 2 and isinstance(arg, list) and rng.random() < 0.15:
                # malformed element after good ones: refused as a whole
                arg = arg + [rng.choice((("c",), 3, ("a", 1, 2)))]
            return ("insert2", idx, arg)
        if r < 0.40:
            return ("insert_iter", idx, [pair() for _ in range(rng.randint(1, 3))])
        if r < 0.46:
            name = rng.choice(("insert_before", "insert_after"))
            arg = pair() if rng.random() < 0.6 else [pair(), pair(), pair()]
            return (name, rng.choice(K), arg, rng.choice((0, 0, 1, 2, -1, -2)))
        if r < 0.52:
            return ("extend", [pair() for _ in range(rng.randint(0, 3))], {})
        if r < 0.56:
            return ("extend", None, {rng.choice(K): val()})
        if r < 0.62:
            return ("update", [pair() for _ in range(rng.randint(0, 3))], {})
        if r < 0.66:
            return ("update", {rng.choice(K): val()}, {rng.choice(K): val()})
        if r < 0.72:
            return (rng.choice(("delitem", "discard", "pop1", "popall1")),
                    fresh(rng.choice(K)))
        if r < 0.77:
            return (rng.choice(("pop2", "popall2")), fresh(rng.choice(K)), "dflt")
        if r < 0.87:
            return (rng.choice(("pop0", "popitem")),)
        if r < 0.94:
            return ("setdefault",) + pair()
        if r < 0.97:
            return ("setdefault1", rng.choice(K))
        return ("clear",)

    for h in range(n_hist):
        hb.beat()
        clsname = classes[h % len(classes)]
        cls = getattr(col, clsname)
        c, m = cls(), Model()
        hist = []
        steps = rng.randint(3, 40)
        for s in range(steps):
            op = rand_op(len(m.items))
            mb = Model(m.items)
            wit = {"cls": clsname, "history": list(hist), "op": op}
            before = tuple(map(repr, m.items))
            ok = check_step(rec, clsname, cls, c, m, op, mb,
                            tuple(fresh(k) for k in K) + ("zz",),
                            (1, 2, "x", None), "random", wit)
            rec.case(("rnd", clsname, before, repr(op)), True,
                     sample=wit if (h % 400 == 0 and s == steps - 1) else None)
            rec.count("random_steps")
            hist.append(op)
            if not ok:
                break
        rec.count("random_histories")
        rec.maxi("longest_history", len(hist))


def aliasing_histories(rec, hb, rng, classes, n_hist, pvl):
    """Several live containers built from one another (constructor, copy(),
    extend / insert with another container as the source).  Every container
    has its own model; after every step *all* of them are compared, so state
    shared between two containers (a value list, an index, a view) shows as
    soon as one of them is changed."""
    K = ("a", "b", "c", " d\xa0")
    col = pvl.collections

    def pair():
        return (rng.choice(K), rng.choice((1, 2, 3, "x", None, 0.0, -0.0)))

    def rand_op(n):
        r = rng.random()
        idx = rng.randint(-n - 1, n + 1)
        if r < 0.30:
            return ("append",) + pair()
        if r < 0.40:
            return ("setitem",) + pair()
        if r < 0.48:
            return ("insert3", idx) + pair()
        if r < 0.56:
            return (rng.choice(("insert_before", "insert_after")), rng.choice(K),
                    pair(), rng.choice((0, 1, -1)))
        if r < 0.66:
            return ("extend", [pair() for _ in range(rng.randint(1, 2))], {})
        if r < 0.76:
            return (rng.choice(("pop0", "popitem")),)
        if r < 0.86:
            return (rng.choice(("delitem", "pop1", "popall1", "discard")),
                    rng.choice(K))
        if r < 0.93:
            return ("setdefault",) + pair()
        if r < 0.97:
            return ("update", [pair()], {})
        return ("clear",)

    SPAWN = ("ctor", "copy", "extend-empty", "extend-into", "insert-into",
             "ctor-other-class", "insert-after-into")
    for h in range(n_hist):
        hb.beat()
        clsname = classes[h % len(classes)]
        cls = getattr(col, clsname)
        live = [[cls(), Model(), clsname, cls]]
        hist = []
        steps = rng.randint(6, 30)
        for s in range(steps):
            wit = {"history": list(hist)}
            if (len(live[0][1].items) >= 2 and rng.random() < 0.18) or \
                    (s == 4 and len(live) == 1 and live[0][1].items):
                # build a container from an existing one
                src = rng.choice(live)
                how = rng.choice(SPAWN)
                step = ("spawn", how, live.index(src))
                wit["op"] = step
                try:
                    with warnings.catch_warnings():
                        warnings.simplefilter("ignore")
                        if how == "ctor":
                            new = [src[3](src[0]), Model(src[1].items), src[2], src[3]]
                        elif how == "copy":
                            new = [src[0].copy(), Model(src[1].items), src[2], src[3]]
                        elif how == "ctor-other-class":
                            on = rng.choice([c for c in CLASSES if c != src[2]])
                            oc = getattr(col, on)
                            new = [oc(src[0]), Model(src[1].items), on, oc]
                        elif how == "extend-empty":
                            n0 = src[3]()
                            n0.extend(src[0])
                            new = [n0, Model(src[1].items), src[2], src[3]]
                        else:
                            pre = [pair() for _ in range(rng.randint(1, 2))]
                            n0 = src[3](pre)
                            mm = Model(pre)
                            if how == "extend-into":
                                n0.extend(src[0])
                                mm.extend_pairs(src[1].items)
                            elif how == "insert-into":
                                n0.insert(0, src[0])
                                mm.insert(0, list(src[1].items))
                            else:
                                k0 = pre[0][0]
                                n0.insert_after(k0, src[0])
                                mm.insert(mm.key_index(k0) + 1, list(src[1].items))
                            new = [n0, mm, src[2], src[3]]
                except contracts.InvariantBroken as e:
                    rec.violation("C10", src[2], "invariant-broken-by-op",
                                  {"op": "spawn:" + how}, wit, str(e))
                    break
                except Exception as e:
                    rec.violation("C10", src[2], "op-result", {"op": "spawn:" + how},
                                  wit, f"building a container from another one "
                                       f"({how}) raised {type(e).__name__}: {e}")
                    break
                rec.count(f"spawn[{how}]")
                live.append(new)
                if len(live) > 3:
                    live.pop(rng.randrange(len(live) - 1))
                hist.append(step)
                ok = True
            else:
                t = rng.randrange(len(live))
                c, m, cn, cl = live[t]
                op = rand_op(len(m.items))
                step = ("on", t, op)
                wit["op"] = step
                ok = check_step(rec, cn, cl, c, m, op, Model(m.items), K + ("zz",),
                                (1, 2, "x", None), "aliasing", wit)
                hist.append(step)
            rec.case(("alias", clsname, repr(hist[-3:]), len(hist)), True,
                     sample=wit if (h % 300 == 0 and s == steps - 1) else None)
            rec.count("aliasing_steps")
            # every live container against its own model
            for t, (c, m, cn, cl) in enumerate(live):
                try:
                    bad = compare_views(c, m, K + ("zz",), (1, 2, "x", None), rec.c)
                except contracts.InvariantBroken as e:
                    bad = [("invariant", True, str(e))]
                if bad:
                    rec.violation(
                        "C10", cn, "views-disagree-with-list",
                        {"op": "other-container-changed" if step[0] == "on"
                         and step[1] != t else step[1] if step[0] == "spawn"
                         else step[2][0], "several_containers": True}, wit,
                        f"container #{t} after {step!r}: {bad[:3]}")
                    ok = False
            if not ok:
                break
        rec.count("aliasing_histories")


def repo_tests_under_invariant(rec):
    """Third workload: the repository's whole test-suite with the invariant
    attached (record mode) by a harness-side pytest plugin."""
    out = os.path.join(common.WORK, f"c10-pytest-{os.getpid()}.json")
    os.makedirs(common.WORK, exist_ok=True)
    env = dict(os.environ)
    env["PVL_VERIF"] = "1"
    env["PVL_VERIF_CONTRACT_OUT"] = out
    env["PYTHONPATH"] = os.pathsep.join([common.REPO, common.VERIF, common.DEPS])
    cmd = [common.PY, "-m", "pytest", "-q", "-p", "no:cacheprovider",
           "-p", "vlib.pytest_contracts", "--timeout=600",
           os.path.join(common.REPO, "tests")]
    try:
        r = subprocess.run(cmd, cwd=common.REPO, env=env, capture_output=True,
                           text=True, timeout=900)
    except subprocess.TimeoutExpired:
        rec.inconc("repo tests under invariant timed out (wall clock)")
        return
    try:
        with open(out) as f:
            data = json.load(f)
        os.unlink(out)
    except (OSError, ValueError):
        rec.inconc("contract plugin wrote no result: " + r.stdout[-300:]
                   + r.stderr[-300:])
        return
    rec.count("repo_tests_invariant_evaluations", data["evaluations"])
    rec.count("repo_tests_run", data.get("tests", 0))
    for b in data["breaks"]:
        stack = b.get("stack", [])
        rec.violation(
            "C10", b.get("cls", "?"), "invariant-broken-in-repo-tests",
            {"test": b.get("test", "?").split("::")[-1]},
            b, "two representations disagree while the repository's own "
               "tests ran")


def shard(i, n, tier, seed, rec, hb):
    pvl = common.import_pvl()
    contracts.install("raise")
    col = pvl.collections
    rng = random.Random(f"C10-{seed}-{i}")
    depth = 3 if tier == "quick" else 4
    cap = 3000 if tier == "quick" else 40000
    # BFS transitions are partitioned over all shards, per class
    for clsname in CLASSES:
        d = depth if clsname == "OrderedMultiDict" else max(2, depth - 1)
        bfs(rec, hb, clsname, getattr(col, clsname), d, cap, i, n)
    n_hist = (2400 if tier == "quick" else 200000) // n
    random_histories(rec, hb, rng, CLASSES, n_hist, pvl)
    aliasing_histories(rec, hb, rng, CLASSES, n_hist // 3, pvl)
    rec.count("invariant_evaluations", contracts.STATE["evaluations"])
    if i == 0:
        repo_tests_under_invariant(rec)


def finish_kwargs(rec, tier):
    states = int(sum(v for k, v in rec.maxes.items() if k.startswith("bfs_states")))
    return dict(
        extra_cov={
            "states": states,
            "transitions": int(rec.c.get("bfs_transitions_checked", 0)),
            "exhaustive": rec.c.get("bfs_truncated_by_state_cap", 0) == 0,
            "explanation": "exhaustive refers to the bounded BFS part only "
                           "(all op instances from all states to the depth in "
                           "maxima.bfs_depth[...]); random histories are a "
                           "sample",
        },
        required_counters=("bfs_transitions_checked", "random_steps",
                           "equality_checks_with_equal_but_different_values",
                           "aliasing_steps", "spawn[ctor]", "spawn[copy]",
                           "spawn[extend-empty]",
                           "invariant_evaluations", "equality_checks",
                           "repo_tests_invariant_evaluations"),
        assumptions=[
            "reference model = 60-line list-of-pairs semantics written from "
            "the docstrings / ABC contracts",
            "icontract 2.7.3 wraps the public methods of OrderedMultiDict",
        ],
    )


def replay(data):
    pvl = common.import_pvl()
    contracts.install("raise")
    rec = common.Rec()
    col = pvl.collections
    bad = 0
    for w in data["witnesses"]:
        w = w["witness"]
        if "history" not in w:
            print("witness from the repo-test workload:", w)
            continue
        cls = getattr(col, w["cls"])

        hist = [tuple(o) for o in w["history"]]
        op = tuple(w["op"])
        c, m = cls(), Model()
        for o in hist:
            apply_real(c, o)
            apply_model(m, o)
        ok = check_step(rec, w["cls"], cls, c, m, op, Model(m.items),
                        ("a", "b", "c", "d", "zz"), (1, 2, "x", None, "d"),
                        "replay", w)
        print("history:", hist, "op:", op, "->", "clean" if ok else "VIOLATES")
        bad += 0 if ok else 1
    for ent in rec.viol.values():
        for x in ent["witnesses"]:
            print("  ", x["message"])
    return 1 if bad else 0
