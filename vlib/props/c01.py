"""C01 - dump, then strict load in the same dialect, returns the original."""
import random

from .. import common
from ..gen_values import DIALECTS
from ..roundtrip import run_case, roundtrip, wrap_levels

CHECK = "C01"
RULE = (
    "random modules (nested groups/objects, duplicate keys, hazard value "
    "classes of DESIGN 3.2) x 4 encoders x random encoder options; reader = "
    "strict parser of the same dialect. distinct = distinct (dialect, case "
    "seed); non-trivial = every generated module (>=1 statement). Modules "
    "holding a value the dialect cannot represent are judged on the refusal "
    "type only. Plus a deterministic sweep: every hazard string (~110) x 4 "
    "encoders x widths {20,40,80} x short/long key x 5-6 contexts (top level, "
    "in sequences, nested sequence, set, quantity) x nesting level {0,2}."
)


def reader_for(dialect):
    return dialect


def nshards(tier):
    return 16


def shard(i, n, tier, seed, rec, hb, check=CHECK, reader_of=reader_for):
    pvl = common.import_pvl()
    per = 8000 if tier == "quick" else 500000
    # dialects are interleaved, in an order that changes from case to case:
    # state shared between encoder/decoder classes of one process must not
    # leak from one dialect into the next
    order_rng = random.Random(f"{check}-order-{seed}-{i}")
    for j in range(i, per, n):
        order = list(DIALECTS)
        order_rng.shuffle(order)
        for dialect in order:
            hb.beat()
            key = f"{check}-{seed}-{dialect}-{j}"
            rng = random.Random(key)
            try:
                with common.cpu_limit(60):
                    run_case(rec, pvl, dialect, reader_of(dialect), key, rng, check)
            except common.CaseTimeout:
                rec.inconc(f"CPU budget exceeded on case {key}")
    hazard_sweep(rec, pvl, check, reader_of, i, n, tier)


HAZARDS = None


def hazard_values(col):
    """Every hazard string of the generator's tables, one by one."""
    from .. import gen_values as gv
    words = []
    words += gv.KEYWORD_LIKE + gv.NUMBER_LIKE + gv.TIME_LIKE + gv.BASED_LIKE
    words += ["", "x", "two words", " lead", "trail ", "a  b", "a\tb", "a\nb",
              "a\r\nb", "a-\nb", "a-\n   b", "\nx", "x\n", "it's", 'say "x"',
              "/* c */", "a/*b", "a*/", "a*/b", "*/b", "stop*/END", "a#b", "# c", "a #b", "a/b", "a*b", "v-", "-", "--",
              "-v", "a-b", "a+b", "+", "g++", "a&b", "a<b", "a>b", "{x}", "(x)", "a,b",
              "a=b", "a;b", "a!b", "a%b", "a~b", "a|b", "[x]", "a.b", "ns:id", "^p",
              "caf\xe9", "\xa0x", "x" * 35, "word " * 12, "A_LONG_IDENTIFIER_" * 4,
              "end_group", "Begin_Object", "2001-01-01T00:00:60", "1e", "e5", "0x10",
              "1,5", "1.5.2", "12:60", "24:00", "2001-13-01", "99999999999999999999"]
    seen = set()
    for w in words:
        if w not in seen:
            seen.add(w)
            yield w


def hazard_sweep(rec, pvl, check, reader_of, part, nparts, tier):
    """Deterministic: every hazard string x encoder x width x context x key."""
    from ..gen_values import in_charset
    from ..roundtrip import describe
    col = pvl.collections
    n = 0
    for dialect in DIALECTS:
        for width in (20, 40, 80):
            for key in ("k", "A_RATHER_LONG_PARAMETER_NAME_30"):
                for s in hazard_values(col):
                    if not in_charset(dialect, s) or ('"' in s and "'" in s):
                        continue
                    contexts = {
                        "top": s, "seq": ["x", s, 3], "seq-first": [s, 1],
                        "seq-nested": [[1, s], [2, "y"]],
                        "set": {s},
                    }
                    if dialect in ("PVL", "ISIS"):
                        contexts["quantity"] = col.Quantity(s, "m")
                    for cname, value in contexts.items():
                        for level in (0, 2):
                            n += 1
                            if n % nparts != part:
                                continue
                            cfg = {"width": width, "indent": 2,
                                   "aggregation_end": True}
                            m = wrap_levels(col, key, value, level)
                            o = roundtrip(pvl, dialect, cfg, m, reader_of(dialect))
                            rec.case((check, "sweep", dialect, width, key, s, cname,
                                      level), True)
                            rec.count(f"sweep[{dialect}][{o.kind}]")
                            if o.bad:
                                big = dict(cfg, width=100000)
                                ob = roundtrip(pvl, dialect, big,
                                               wrap_levels(col, key, value, level),
                                               reader_of(dialect))
                                op = roundtrip(pvl, dialect, cfg,
                                               wrap_levels(col, "K", value, 0),
                                               reader_of(dialect))
                                rec.violation(
                                    check, dialect, o.kind,
                                    {"value": describe(s, dialect), "context": cname,
                                     "wrap_dependent": not ob.bad,
                                     "name_or_level_dependent": not op.bad},
                                    {"dialect": dialect, "cfg": cfg, "name": key,
                                     "level": level, "value": repr(value),
                                     "text": o.text, "workload": "hazard-sweep"},
                                    o.detail)

    # two strings in one statement: one with a single quote character of one
    # kind in it, and a long one with dashes and blanks that has to be wrapped
    # (what is done for one quoted string must not shift the pairing for the next)
    odd = ('6" aperture', "it's", 'say "x', "x'", '"', "'")
    for dialect in DIALECTS:
        for width in (20, 40, 80):
            for a in odd:
                for pad in range(0, 13):
                    b = "w " * pad + "mount - on loan from the observatory- annex a-  b"
                    for cname, value in (("pair", [a, b]), ("pair-reversed", [b, a]),
                                         ("between", [a, b, a]), ("two-long", [a, b, b])):
                        n += 1
                        if n % nparts != part:
                            continue
                        if not all(in_charset(dialect, x) for x in value):
                            continue
                        cfg = {"width": width, "indent": 2, "aggregation_end": True}
                        m = wrap_levels(col, "optics", value, 0)
                        o = roundtrip(pvl, dialect, cfg, m, reader_of(dialect))
                        rec.case((check, "pair-sweep", dialect, width, a, pad, cname), True)
                        rec.count(f"pair_sweep[{o.kind}]")
                        if o.bad:
                            rec.violation(
                                check, dialect, o.kind,
                                {"value": "seq[str:odd-quote, str:long-with-dashes]",
                                 "context": cname},
                                {"dialect": dialect, "cfg": cfg, "value": repr(value),
                                 "text": o.text, "workload": "pair-sweep"}, o.detail)


def finish_kwargs(rec, tier):
    req = [f"representable[{d}]" for d in DIALECTS]
    req += [f"outcome[{d}][ok]" for d in DIALECTS]
    req += ["modules_with_duplicate_keys", "modules_with_nesting"]
    req += [f"sweep[{d}][ok]" for d in DIALECTS] + ["pair_sweep[ok]"]
    return dict(required_counters=req,
                assumptions=["normalisation relation of DESIGN 3.7, implemented "
                             "without the library's decoder",
                             "own structural clone (copy.deepcopy is C11's "
                             "subject)"])


def replay(data, reader_of=reader_for):
    pvl = common.import_pvl()
    import ast  # noqa
    bad = 0
    for w in data["witnesses"]:
        w = w["witness"]
        print("---", {k: w[k] for k in w if k not in ("text", "module")})
        if "text" in w and w["text"]:
            print("text written by the encoder:\n" + w["text"])
        if "seed" in w:
            from ..gen_values import gen_config, gen_module
            rng = random.Random(w["seed"])
            d = w["dialect"]
            cfg = gen_config(rng, d)
            gm = gen_module(rng, d, cfg["width"], pvl.collections)
            o = roundtrip(pvl, d, cfg, gm.module, reader_of(d))
            print("regenerated case", w["seed"], "->", o.kind, o.detail)
            bad += 1 if o.bad else 0
    return 1 if bad else 0
