"""C01 - dump, then strict load in the same dialect, returns the original."""
import random

from .. import common
from ..gen_values import DIALECTS
from ..roundtrip import run_case, roundtrip, wrap_levels

CHECK = "C01"
RULE = (
    "random modules (nested groups/objects, duplicate keys, hazard value "
    "classes of DESIGN 3.2) x 4 encoders x random encoder options; reader = "
    "strict parser of the same dialect. distinct = distinct (dialect, case "
    "seed); non-trivial = every generated module (>=1 statement). Modules "
    "holding a value the dialect cannot represent are judged on the refusal "
    "type only."
)


def reader_for(dialect):
    return dialect


def nshards(tier):
    return 16


def shard(i, n, tier, seed, rec, hb, check=CHECK, reader_of=reader_for):
    pvl = common.import_pvl()
    per = 8000 if tier == "quick" else 120000
    # dialects are interleaved, in an order that changes from case to case:
    # state shared between encoder/decoder classes of one process must not
    # leak from one dialect into the next
    order_rng = random.Random(f"{check}-order-{seed}-{i}")
    for j in range(i, per, n):
        order = list(DIALECTS)
        order_rng.shuffle(order)
        for dialect in order:
            hb.beat()
            key = f"{check}-{seed}-{dialect}-{j}"
            rng = random.Random(key)
            try:
                with common.cpu_limit(60):
                    run_case(rec, pvl, dialect, reader_of(dialect), key, rng, check)
            except common.CaseTimeout:
                rec.inconc(f"CPU budget exceeded on case {key}")


def finish_kwargs(rec, tier):
    req = [f"representable[{d}]" for d in DIALECTS]
    req += [f"outcome[{d}][ok]" for d in DIALECTS]
    req += ["modules_with_duplicate_keys", "modules_with_nesting"]
    return dict(required_counters=req,
                assumptions=["normalisation relation of DESIGN 3.7, implemented "
                             "without the library's decoder",
                             "own structural clone (copy.deepcopy is C11's "
                             "subject)"])


def replay(data, reader_of=reader_for):
    pvl = common.import_pvl()
    import ast  # noqa
    bad = 0
    for w in data["witnesses"]:
        w = w["witness"]
        print("---", {k: w[k] for k in w if k not in ("text", "module")})
        if "text" in w and w["text"]:
            print("text written by the encoder:\n" + w["text"])
        if "seed" in w:
            from ..gen_values import gen_config, gen_module
            rng = random.Random(w["seed"])
            d = w["dialect"]
            cfg = gen_config(rng, d)
            gm = gen_module(rng, d, cfg["width"], pvl.collections)
            o = roundtrip(pvl, d, cfg, gm.module, reader_of(d))
            print("regenerated case", w["seed"], "->", o.kind, o.detail)
            bad += 1 if o.bad else 0
    return 1 if bad else 0
