"""C02 - the default loader reads back everything any bundled encoder writes.

Same workload and monitor as C01, but the reader is pvl.loads(text) with no
other argument, the normalisation is the default loader's (fold, naive->UTC,
frozenset), and an empty-value repair (module.errors) firing on encoder
output is itself a violation.  One case in five uses pvl.dumps(m) with no
arguments at all (the identity named in the property)."""
import random

from .. import common
from ..gen_values import DIALECTS, gen_module
from ..roundtrip import run_case, roundtrip
from . import c01

CHECK = "C02"
RULE = c01.RULE.replace("reader = strict parser of the same dialect",
                        "reader = pvl.loads(text) with no other argument")


def nshards(tier):
    return 16


def noargs_identity(rec, pvl, key, rng):
    """pvl.loads(pvl.dumps(m)) with no arguments at all."""
    from ..normalise import clone, compare, rules_for
    gm = gen_module(rng, "PDS3", 80, pvl.collections)
    orig = clone(gm.module)
    rec.case(("noargs", key), True)
    try:
        text = pvl.dumps(gm.module)
    except (ValueError, TypeError):
        rec.count("noargs_refused")
        return
    except Exception as e:
        rec.violation(CHECK, "PDS3-noargs", "encode-raised-not-ValueError-TypeError",
                      {"exc": type(e).__name__}, {"seed": key}, repr(e))
        return
    if not gm.rep:
        return
    rec.count("noargs_identity_checked")
    try:
        back = pvl.loads(text)
    except Exception as e:
        rec.violation(CHECK, "PDS3-noargs", "load-failed", {"exc": type(e).__name__},
                      {"seed": key, "text": text}, repr(e)[:300])
        return
    diff = compare(orig, back, rules_for("PDS3", "default"))
    if diff or getattr(back, "errors", None):
        rec.violation(CHECK, "PDS3-noargs", "value-changed",
                      {"errors": bool(getattr(back, "errors", None))},
                      {"seed": key, "text": text}, str(diff)[:300])


def shard(i, n, tier, seed, rec, hb):
    pvl = common.import_pvl()
    c01.shard(i, n, tier, seed, rec, hb, check=CHECK,
              reader_of=lambda d: "default-noargs")
    per = 2000 if tier == "quick" else 200000
    for j in range(i, per, n):
        hb.beat()
        key = f"C02-noargs-{seed}-{j}"
        noargs_identity(rec, pvl, key, random.Random(key))


def finish_kwargs(rec, tier):
    kw = c01.finish_kwargs(rec, tier)
    kw["required_counters"] = list(kw["required_counters"]) + [
        "noargs_identity_checked"]
    return kw


def replay(data):
    return c01.replay(data, reader_of=lambda d: "default-noargs")
