"""C09 - file, stream and string entry points agree; nothing after END matters.

Differential monitor over the ways of handing the same bytes to the loaders,
a dump-target monitor, and a trace monitor (counting lexer through the public
lexer_fn parameter: no token is requested beyond the END statement)."""
import io
import os
import pathlib
import random
import shutil
import tempfile

from .. import common
from .. import gen_text as gt
from ..gen_values import gen_module, gen_config, make_encoder, strict_parser
from ..normalise import clone, compare, Rules, snapshot
from ..textrun import load
from ..trace import traced_parser

CHECK = "C09"
RULE = (
    "labels: generated ASCII default-dialect documents ending in END, with a "
    "separator and trailing bytes (empty, random binary, valid UTF-8 text, "
    "NULs, PVL-looking punctuation, long unbroken decodable runs, first "
    "undecodable byte placed around 4096/8192-byte boundaries), and non-ASCII "
    "(UTF-8) labels without trailing data; each through 8 entry points. dump: "
    "path / text stream / binary stream targets. distinct = (label seed, "
    "tail class, separator); non-trivial = all"
)
EXACT = Rules()  # nothing is forgiven: same loader on both sides
STALL_S = 1800


def nshards(tier):
    return 16


def tails(rng, tier, label_len):
    big = 100_000 if tier == "quick" else 1_000_000
    yield "empty", b""
    yield "random-binary", bytes(rng.randrange(256) for _ in range(rng.randint(1, 600)))
    yield "high-bytes-first", b"\xff\xfe" + bytes(rng.randrange(256) for _ in range(50))
    yield "utf8-text", "Δv = 3 km/s\nmore = (1, 2)\n".encode("utf-8")
    yield "ascii-pvl-like", b"a = 1\nGROUP = g\n b = (1,\n"
    yield "nuls", b"\0" * rng.randint(1, 300)
    yield "punctuation", b"= = ( { < ' \" /* ;;"
    # decodable data that stops in the middle of a multi-byte character
    yield "ends-inside-a-multibyte-character", rng.choice(
        ("data \u20ac".encode("utf-8")[:-1], b"\xc3", "x\U0001F600".encode("utf-8")[:-2],
         b"\n" + "\xe9".encode("utf-8")[:1]))
    if rng.random() < (0.15 if tier == "quick" else 0.5):
        yield "long-unbroken-run", b"A" * big
    # valid multi-byte text whose characters straddle 4096/8192-byte block
    # boundaries, followed by binary data in a later block
    k = rng.choice((4096, 8192, 16384))
    ch = rng.choice(("\xe9", "\u20ac", "\U0001F600")).encode("utf-8")
    pad = max(0, k - label_len - 1 - rng.randrange(len(ch)))
    body = b"\n" + b" " * max(0, pad - 2) + ch * rng.randint(40, 3000)
    yield "multibyte-straddling-block-boundary", body + b"\xff\xfe\x00" + b"z" * 30
    # more than one read-ahead chunk of harmless padding, then binary data
    yield "padding-then-binary", rng.choice((b" ", b"\x00", b"\n")) * \
        rng.choice((8200, 9000, 20000)) + b"\xff\xfe\x00\x81" + b"\x00" * 50
    # first undecodable byte near a buffer boundary of the text-mode reader
    k = rng.choice((4096, 8192, 16384))
    pad = max(0, k - label_len - rng.choice((-2, -1, 0, 1, 2, 3)))
    yield "undecodable-at-buffer-boundary", b" " * pad + b"\xff\x00\xfe" + b"x" * 20


def routes(pvl, path, data, tail_decodable, mk=None):
    """name -> callable returning a module; *mk* builds a fresh parser for the
    strict-dialect cases (None: the default loader, no parser argument)."""
    kw = (lambda: {}) if mk is None else (lambda: {"parser": mk()})
    r = {
        "load(str path)": lambda: pvl.load(str(path), **kw()),
        "load(Path)": lambda: pvl.load(pathlib.Path(path), **kw()),
        "loadu(file URL)": lambda: pvl.loadu(pathlib.Path(path).as_uri(), **kw()),
        "load(text stream)": lambda: _with(open(path, "r"),
                                           lambda f: pvl.load(f, **kw())),
        "load(binary stream)": lambda: _with(open(path, "rb"),
                                             lambda f: pvl.load(f, **kw())),
        "load(BytesIO)": lambda: pvl.load(io.BytesIO(data), **kw()),
        "loads(bytes)": lambda: pvl.loads(data, **kw()),
    }
    if tail_decodable:
        r["loads(str)"] = lambda: pvl.loads(data.decode("utf-8"), **kw())
    return r


def _with(f, fn):
    with f:
        return fn(f)


def gen_label(rng, non_ascii, reader="default"):
    while True:
        doc = gt.gen_document(rng, reader, max_top=4)
        if any(c == "seq-inside-set" for c, _ in doc.meta):
            continue
        toks = list(doc.tokens)
        if toks[-1].kind == gt.SEMI:
            toks = toks[:-1]
        if toks[-1].kind != gt.END:
            toks.append(gt.Tok(gt.END, "END"))
        text = gt.render(toks, gt.plain_layout(toks)).rstrip("\n")
        if not text.endswith("END"):
            continue
        inside = None
        if rng.random() < 0.25:
            # a line that reads END inside a quoted string or a comment is not
            # the End Statement
            inside = rng.choice(('note = "page one\nEND\npage two"\n',
                                 '/* superseded label:\nEND\n*/\n',
                                 'note = "x\n  end  \ny"\n/* c\nEnd\n */\n'))
            text = text[:-3] + inside + "END"
        if reader == "default" and rng.random() < 0.3:
            # ASCII control characters that str.splitlines() takes for line
            # boundaries (they are ordinary characters to the permissive grammar)
            text = text[:-3] + 'note3 = "one\x1ctwo\x1dthree\x1efour"\nw\x1cx = y\x1ez\n' + "END"
        if non_ascii:
            extra = 'note2 = "café Δv µm €"\nEND' if reader == "default" else \
                'note2 = "café µm"\nEND'
            text = text[:-3] + extra
            text = ('first = "éè 中文"\n' if reader == "default" else
                    'first = "éè"\n') + text
        return text, toks, inside is not None


def label_case(rec, pvl, key, tier, tmp, holder):
    rng = random.Random(key)
    reader = rng.choice(("default", "default", "default", "PVL", "ODL", "PDS3", "ISIS"))
    non_ascii = rng.random() < 0.25 and reader in ("default", "PVL", "ISIS")
    text, toks, end_inside = gen_label(rng, non_ascii, reader)
    mk = None if reader == "default" else (lambda: strict_parser(pvl, reader))
    st, base = load(pvl, reader, text,
                    parser=pvl.parser.OmniParser() if mk is None else mk())
    if st != "ok":
        rec.count("label_not_loadable")
        return
    rec.count(f"reader[{reader}]")
    if end_inside:
        rec.count("labels_with_END_line_inside_string_or_comment")
    base_snap = snapshot(base)
    label_bytes = text.encode("utf-8")
    tail_iter = [("none", b"")] if non_ascii else list(tails(rng, tier, len(label_bytes)))
    for tname, tail in tail_iter:
        sep = rng.choice((b"\n", b"\r\n", b" ", b";", b";\n", b" /* end of label */\n",
                          b"\n/* image data follows */", b" # end\n", b"; /* c */ ",
                          b"/* glued */", b";/* c */\n")
                         + ((b"# image data follows\n", b";# x\n")
                            if reader in ("default", "ISIS") else ())) \
            if tail or rng.random() < 0.5 else b""
        if reader != "default" and rng.random() < 0.3 and \
                tname in ("utf8-text", "high-bytes-first") + \
                (("nuls",) if reader in ("PVL", "ISIS") else ()):
            # the data starts right behind END with a character the dialect
            # forbids (so it cannot be part of the END token)
            sep = b""
            rec.count("data_directly_behind_END")
        data = label_bytes + sep + tail
        path = os.path.join(tmp, "label.lbl")
        with open(path, "wb") as f:
            f.write(data)
        try:
            data.decode("utf-8")
            decodable = True
        except UnicodeDecodeError:
            decodable = False
        rec.case((key, tname, sep), True,
                 sample={"seed": key, "tail": tname, "sep": repr(sep),
                         "label": text[:200], "non_ascii": non_ascii}
                 if rec.c["evaluations"] % 211 == 0 else None)
        rec.count(f"tail[{tname}]")
        for rname, fn in routes(pvl, path, data, decodable, mk).items():
            rec.count(f"route[{rname}]")
            feats = {"route": rname, "tail": tname, "non_ascii_label": non_ascii,
                     "tail_is_valid_utf8": decodable, "reader": reader,
                     "END_line_inside_string_or_comment": end_inside,
                     "data_directly_behind_END": bool(tail) and not sep}
            wit = {"seed": key, "label": text, "sep": repr(sep), "tail_class": tname,
                   "tail_len": len(tail), "route": rname, "reader": reader}
            try:
                with common.cpu_limit(120):
                    m = fn()
            except common.CaseTimeout:
                rec.inconc(f"CPU budget exceeded in {rname} ({tname})")
                continue
            except Exception as e:
                rec.violation(CHECK, reader, "entry-point-raised",
                              {**feats, "exc": type(e).__name__}, wit,
                              f"{type(e).__name__}: {e}"[:300])
                continue
            if snapshot(m) != base_snap or getattr(m, "errors", []) != \
                    getattr(base, "errors", []):
                d = compare(base, m, EXACT)
                rec.violation(CHECK, reader, "entry-point-differs-from-loads",
                              feats, wit, f"{d}: got {[k for k, _ in list(m)]} "
                                          f"for {[k for k, _ in list(base)]}"[:300])
        # a stream the caller has already read from (a header line in front of
        # the label): load() starts where the caller left the stream
        header = b"CCSD3ZF0000100000001NJPL3IF0PDS200000001 = SFDU_LABEL\n"
        path2 = os.path.join(tmp, "with_header.lbl")
        with open(path2, "wb") as f:
            f.write(header + data)
        for rname, mode in (("load(text stream, after a header line was read)", "r"),
                            ("load(binary stream, after a header line was read)", "rb")):
            try:
                with open(path2, mode) as f:
                    try:
                        f.readline()
                    except UnicodeDecodeError:
                        continue     # the caller's own read already fails
                    rec.count(f"route[{rname}]")
                    with common.cpu_limit(120):
                        m = pvl.load(f, **({} if mk is None else {"parser": mk()}))
            except common.CaseTimeout:
                rec.inconc(f"CPU budget exceeded in {rname} ({tname})")
                continue
            except Exception as e:
                rec.violation(CHECK, reader, "entry-point-raised",
                              {"route": rname, "tail": tname, "reader": reader,
                               "exc": type(e).__name__, "tail_is_valid_utf8": decodable},
                              {"seed": key, "label": text, "sep": repr(sep),
                               "tail_class": tname, "route": rname, "reader": reader},
                              f"{type(e).__name__}: {e}"[:300])
                continue
            if snapshot(m) != base_snap:
                rec.violation(CHECK, reader, "entry-point-differs-from-loads",
                              {"route": rname, "tail": tname, "reader": reader,
                               "tail_is_valid_utf8": decodable},
                              {"seed": key, "label": text, "sep": repr(sep),
                               "tail_class": tname, "route": rname, "reader": reader},
                              f"got {[k for k, _ in list(m)]} for "
                              f"{[k for k, _ in list(base)]}"[:300])
        # trace monitor on the decodable tails (a str can be handed to the parser)
        if decodable or True:
            s = label_bytes.decode("utf-8") + sep.decode("ascii") + \
                tail.decode("utf-8", errors="replace")
            p = traced_parser(pvl, reader, holder)
            st2, m2 = load(pvl, reader, s, parser=p, cpu=120)
            tr = holder.get("trace")
            rec.count("trace_runs")
            if st2 == "ok" and tr is not None and tr.fresh:
                last = tr.fresh[-1]
                # (positions refer to the text after dash-continuation removal)
                end_pos = len(text) - len(toks[-1].text) \
                    if not non_ascii and "-\n" not in text else None
                problems = []
                if last[0] == ";" and len(tr.fresh) > 1 and \
                        tr.fresh[-2][0].casefold() == "end":
                    last = tr.fresh[-2]    # the END statement's own delimiter
                if last[0].casefold() != "end":
                    problems.append(f"last token requested is {last[0][:30]!r}, not END")
                elif last[1] is not None and end_pos is not None and last[1] != end_pos:
                    problems.append(f"END token at {last[1]}, label's END at {end_pos}")
                if tr.eof and (tail.strip() or sep.strip(b" \r\n")):
                    problems.append("the lexer ran to the end of the text")
                if problems:
                    rec.violation(CHECK, reader, "tokens-requested-after-END",
                                  {"tail": tname, "reader": reader},
                                  {"seed": key, "label": text, "tail_class": tname,
                                   "reader": reader},
                                  "; ".join(problems))
                else:
                    rec.count("no_token_after_END_confirmed")


BLOCKS = (64, 256, 512, 1000, 1024, 2048, 4096, 8192)


def straddle_label(block, ch, shift, only_last=False):
    """bytes of a label (ending in END) in which the multi-byte character
    *ch* has *shift* of its bytes before a multiple of *block* (once in the
    first block boundary - unless only_last - and once at the second, just
    before END)."""
    chb = ch.encode("utf-8")
    head = b'/* ' 
    stem = b' */\nFIRST = 1\nNOTE = "ab'
    n = block - shift - len(head) - len(stem)
    if n < 0:
        return None
    label = head + b"p" * n + stem + (b"x" * len(chb) if only_last else chb) + b'cd"\n'
    assert only_last or label.index(chb) == block - shift
    label += b"".join(b'K%d = "v%d"\n' % (k, k) for k in range(3))
    # a second one, one block further on
    fill = 2 * block - shift - len(label) - len(b'SECOND = "') 
    if fill > 4:
        label += b"/*" + b"q" * (fill - 5) + b"*/\n" + b'SECOND = "' + chb + b'"\n'
    elif only_last:
        return None
    label += b"LAST = 2\nEND"
    return label


def straddle_case(rec, pvl, block, ch, shift, tmp, with_data):
    """A label longer than *block* bytes with the multi-byte character *ch*
    placed so that *shift* of its bytes lie before a multiple of *block*
    (0: it starts exactly there), and - with_data - undecodable data right
    behind END.  Every byte-wise way in must give the module of the label."""
    label = straddle_label(block, ch, shift)
    if label is None:
        return
    text = label.decode("utf-8")
    st, base = load(pvl, "default", text, parser=pvl.parser.OmniParser())
    if st != "ok":
        rec.violation(CHECK, "default", "entry-point-raised",
                      {"route": "loads(str)", "tail": "straddle", "exc": st},
                      {"label": text[-300:], "block": block}, str(base)[:200])
        return
    base_snap = snapshot(base)
    data = label + (b"\n\xff\xfe\x00\x81data" + b"\x00" * 40 if with_data else b"\n")
    path = os.path.join(tmp, "straddle.lbl")
    with open(path, "wb") as f:
        f.write(data)
    rec.case(("straddle", block, ch, shift, with_data), True)
    rec.count("multibyte_character_of_the_label_at_a_block_boundary")
    rs = routes(pvl, path, data, not with_data)
    for rname, fn in rs.items():
        rec.count(f"route[{rname}]")
        feats = {"route": rname, "tail": "binary" if with_data else "none",
                 "non_ascii_label": True, "character_straddles_multiple_of": block
                 if shift else 0, "reader": "default"}
        wit = {"block": block, "character": ch, "bytes_before_the_boundary": shift,
               "data_behind_END": with_data, "route": rname,
               "label_tail": text[-200:]}
        try:
            with common.cpu_limit(120):
                m = fn()
        except common.CaseTimeout:
            rec.inconc(f"CPU budget exceeded in {rname} (straddle)")
            continue
        except Exception as e:
            rec.violation(CHECK, "default", "entry-point-raised",
                          {**feats, "exc": type(e).__name__}, wit,
                          f"{type(e).__name__}: {e}"[:300])
            continue
        if snapshot(m) != base_snap:
            d = compare(base, m, EXACT)
            rec.violation(CHECK, "default", "entry-point-differs-from-loads", feats,
                          wit, f"{d}: got {[k for k, _ in list(m)]} for "
                               f"{[k for k, _ in list(base)]}"[:300])


def dump_case(rec, pvl, key, tmp):
    rng = random.Random(key)
    dialect = rng.choice(("PDS3", "PVL", "ODL", "ISIS"))
    cfg = gen_config(rng, dialect)
    gm = gen_module(rng, dialect, cfg["width"], pvl.collections)
    if rng.random() < 0.3 and dialect in ("PVL", "ISIS"):
        gm.module.append("latin", "caf\xe9 \xb5m")
    enc = lambda: make_encoder(pvl, dialect, cfg)  # noqa: E731
    try:
        want = pvl.dumps(gm.module, encoder=enc())
    except Exception:
        rec.count("dump_refused")
        return
    rec.case(("dump", key), True)
    targets = {}
    p1 = os.path.join(tmp, "out1.lbl")
    p2 = os.path.join(tmp, "out2.lbl")
    p3 = os.path.join(tmp, "out3.lbl")
    p4 = os.path.join(tmp, "out4.lbl")
    try:
        r1 = pvl.dump(gm.module, p1, encoder=enc())
        targets["str path"] = (r1, open(p1, "rb").read(), len(want))
        r2 = pvl.dump(gm.module, pathlib.Path(p2), encoder=enc())
        targets["Path"] = (r2, open(p2, "rb").read(), len(want))
        with open(p3, "w", newline="", encoding="utf-8") as f:
            r3 = pvl.dump(gm.module, f, encoder=enc())
        targets["text stream"] = (r3, open(p3, "rb").read(), len(want))
        with open(p4, "wb") as f:
            r4 = pvl.dump(gm.module, f, encoder=enc())
        targets["binary stream"] = (r4, open(p4, "rb").read(),
                                    len(want.encode("utf-8")))
        b = io.BytesIO()
        r5 = pvl.dump(gm.module, b, encoder=enc())
        targets["BytesIO"] = (r5, b.getvalue(), len(want.encode("utf-8")))
        s = io.StringIO(newline="")
        r6 = pvl.dump(gm.module, s, encoder=enc())
        targets["StringIO"] = (r6, s.getvalue().encode("utf-8"), len(want))
    except Exception as e:
        rec.violation(CHECK, dialect, "dump-target-raised",
                      {"exc": type(e).__name__}, {"seed": key, "cfg": cfg},
                      repr(e)[:200])
        return
    if dialect == "PDS3":
        # keyword arguments of dump / dumps configure the default encoder:
        # the same text as the encoder built by hand with them
        try:
            kw_text = pvl.dumps(clone(gm.module), **cfg)
            b = io.BytesIO()
            rk = pvl.dump(clone(gm.module), b, **cfg)
            targets["BytesIO via keyword arguments"] = (
                rk, b.getvalue(), len(want.encode("utf-8")))
        except Exception as e:
            kw_text = f"raised {type(e).__name__}: {e}"
        rec.count("dumps_with_keyword_arguments")
        if kw_text != want:
            rec.violation(CHECK, dialect, "dumps-keyword-arguments-differ-from-encoder",
                          {}, {"seed": key, "cfg": cfg, "want": want[:400],
                               "got": kw_text[:400]}, "")
    for name, (ret, written, want_len) in targets.items():
        rec.count(f"dump_target[{name}]")
        if written != want.encode("utf-8"):
            rec.violation(CHECK, dialect, "dump-writes-other-bytes",
                          {"target": name, "non_ascii": not want.isascii()},
                          {"seed": key, "cfg": cfg, "want": want[:300],
                           "written": repr(written[:300])}, "")
        elif ret != want_len:
            rec.violation(CHECK, dialect, "dump-returns-wrong-length",
                          {"target": name, "non_ascii": not want.isascii()},
                          {"seed": key, "cfg": cfg}, f"returned {ret}, wrote {want_len}")


def shard(i, n, tier, seed, rec, hb):
    pvl = common.import_pvl()
    tmp = tempfile.mkdtemp(prefix="pvl-c09-", dir="/dev/shm")
    holder = {}
    try:
        total = 160 if tier == "quick" else 3000
        for j in range(i, total, n):
            hb.beat()
            label_case(rec, pvl, f"C09-{seed}-{j}", tier, tmp, holder)
        # multi-byte characters of the label itself at read-block boundaries
        k = 0
        for block in BLOCKS:
            if tier == "quick" and block > 4096:
                continue
            # (U+FFFD is a character like any other when it is IN the label)
            for ch in ("\xe9", "\u20ac", "\U0001F600", "\ufffd"):
                for shift in range(len(ch.encode("utf-8"))):
                    for with_data in (True, False):
                        k += 1
                        if k % n == i:
                            hb.beat()
                            straddle_case(rec, pvl, block, ch, shift, tmp, with_data)
        dumps_n = 400 if tier == "quick" else 8000
        for j in range(i, dumps_n, n):
            hb.beat()
            dump_case(rec, pvl, f"C09-dump-{seed}-{j}", tmp)
    finally:
        shutil.rmtree(tmp, ignore_errors=True)


def finish_kwargs(rec, tier):
    req = ["trace_runs", "no_token_after_END_confirmed", "tail[random-binary]",
           "tail[utf8-text]", "tail[nuls]", "tail[undecodable-at-buffer-boundary]",
           "tail[multibyte-straddling-block-boundary]", "tail[padding-then-binary]",
           "route[load(text stream, after a header line was read)]",
           "route[load(binary stream, after a header line was read)]",
           "multibyte_character_of_the_label_at_a_block_boundary",
           "tail[none]", "route[load(text stream)]", "route[load(binary stream)]",
           "route[loadu(file URL)]", "route[loads(bytes)]", "route[loads(str)]",
           "dump_target[binary stream]", "dump_target[text stream]",
           "dump_target[Path]"]
    return dict(required_counters=req,
                assumptions=["file: URLs only (no network); text files opened "
                             "by the harness with newline='' so that the "
                             "comparison is about the library"])


def replay(data):
    pvl = common.import_pvl()
    for w in data["witnesses"]:
        w = w["witness"]
        print({k: (v if k != "label" else v[:300]) for k, v in w.items()})
    print("re-run: VERIF_SEED as recorded; ./check C09")
    return 1
