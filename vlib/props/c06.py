"""C06 - loaders terminate and fail only with the documented error types.

Bounded-exhaustive enumeration of short strings over a PVL-significant token
alphabet and over a character alphabet, truncations of real and generated
labels at every character offset, random splices; x 5 parser configurations.
Termination is decided on logical steps (pull budget of the lexer proxy); a
per-case CPU-time budget is the back-stop."""
import itertools
import os
import random
import traceback

from .. import common
from .. import gen_text as gt
from ..textrun import load
from ..trace import traced_parser, Spin

CHECK = "C06"
RULE = (
    "all sequences up to the length bound over a 20-symbol token alphabet "
    "joined by spaces, all strings up to the length bound over a 12-character "
    "alphabet (both exhaustive), truncations of the tests/data corpus and of "
    "generated labels at every character offset, every sequence of up to 5 "
    "tokens in value position, all pairs of ~75 borderline atoms glued together "
    "as a value, random splices of corpus "
    "fragments; coverage-guided mutation of the corpus (atheris/libFuzzer, "
    "fixed seed and run count per shard, same oracle); "
    "x 5 parser configurations (+ 4 with real_cls=Decimal on the number-heavy "
    "sources); numbers beyond what int/float/Decimal take; labels with "
    "thousands of different words; half of the workers keep ONE parser object "
    "per configuration for all their loads. distinct = (parser, string); "
    "non-trivial = string is not empty"
)
TOKENS = ["a", "1", "=", "(", ")", "{", "}", ",", ";", "<m>", "<", "'x'", "/*",
          "*/", "#", "-", "END", "GROUP", "END_GROUP", "\n"]
TOKENS2 = TOKENS + ["'", "+", "OBJECT", "END_OBJECT", "BEGIN_GROUP", '"x y"']
CHARS = list("a1=(,<'/*#- \n")[:12] + []
STALL_S = 1800


def nshards(tier):
    return 16


def innermost_pvl_frame(exc):
    tb = traceback.extract_tb(exc.__traceback__)
    for fr in reversed(tb):
        if os.sep + "pvl" + os.sep in fr.filename:
            return f"{os.path.basename(fr.filename)}:{fr.name}"
    return "?"


def depth_of(text):
    d = m = 0
    for c in text:
        if c in "({":
            d += 1
            m = max(m, d)
        elif c in ")}":
            d -= 1
    return m


DECIMAL_READERS = ("PVL+Decimal", "ODL+Decimal", "ISIS+Decimal", "default+Decimal")
# sources that are also run with real_cls=decimal.Decimal
DECIMAL_SOURCES = ("atom-pairs", "extreme-numbers", "char-pair-in-context")
_LONG_LIVED = {}


def run_one(rec, pvl, reader, text, holder, src, reuse=False):
    if reuse:
        # one parser object per configuration for the life of the worker (as
        # pvl_validate keeps them): whatever it accumulates over thousands of
        # loads must not make a later load fail in an undocumented way
        if reader not in _LONG_LIVED:
            _LONG_LIVED[reader] = traced_parser(pvl, reader, holder)
        parser = _LONG_LIVED[reader]
        rec.count("loads_through_a_long_lived_parser")
    else:
        parser = traced_parser(pvl, reader, holder)
    try:
        st, res = load(pvl, reader, text, parser=parser, cpu=20)
    except Spin as e:
        st, res = "Spin", e
    tr = holder.get("trace")
    family = "omni" if reader in ("ISIS", "default") else "strict"
    rec.count(f"outcome[{reader}][{st if st in ('ok','LexerError','ParseError') else 'OTHER'}]")
    if tr is not None and tr.fresh:
        rec.maxi("max_pulls_per_fresh_token", round(tr.pulls / len(tr.fresh), 2))
        rec.maxi("max_pulls_per_char", round(tr.pulls / (len(text) + 2), 3))
    if st in ("ok", "LexerError", "ParseError"):
        return
    wit = {"reader": reader, "text": text[:3000], "source": src,
           "long_lived_parser": reuse}
    if len(text) > 3000:
        wit["text_length"] = len(text)
    if reuse:
        # does the text alone do it?
        p2 = traced_parser(pvl, reader, holder)
        try:
            st2, _ = load(pvl, reader, text, parser=p2, cpu=20)
        except Spin:
            st2 = "Spin"
        wit["same_text_with_a_fresh_parser"] = st2
    if st == "Spin":
        rec.violation(CHECK, reader, "spins-without-consuming-text",
                      {"family": family}, wit, str(res))
    elif st == "timeout":
        rec.violation(CHECK, reader, "cpu-budget-exceeded-on-short-input",
                      {"family": family, "len_le_200": len(text) <= 200}, wit,
                      "20 s of CPU for a tiny input (normal: < 1 ms)")
    elif st == "RecursionError" and depth_of(text) > 30:
        rec.count("deep_nesting_excluded")
    else:
        rec.violation(CHECK, reader, "undocumented-exception-type",
                      {"family": family, "exc": st,
                       "where": innermost_pvl_frame(res),
                       **({"only_with_long_lived_parser": True}
                          if reuse and wit.get("same_text_with_a_fresh_parser")
                          in ("ok", "LexerError", "ParseError") else {})}, wit,
                      f"{st}: {res}"[:300])


def corpus_texts(pvl):
    root = os.path.join(common.REPO, "tests", "data")
    out = []
    for dp, dn, fn in os.walk(root):
        for f in sorted(fn):
            p = os.path.join(dp, f)
            try:
                data = open(p, "rb").read(6000)
            except OSError:
                continue
            try:
                t = data.decode("utf-8")
            except UnicodeDecodeError:
                t = data.decode("latin-1")
            out.append((os.path.relpath(p, root), t))
    return out


def strings(tier, seed, pvl):
    """Yield (source, text)."""
    L = 3 if tier == "quick" else 4
    for n in range(1, L + 1):
        for tup in itertools.product(TOKENS, repeat=n):
            yield "token-alphabet", " ".join(tup)
    if tier == "thorough":
        for n in range(1, 4):
            for tup in itertools.product(TOKENS2, repeat=n):
                yield "token-alphabet-26", " ".join(tup)
    Lc = 4 if tier == "quick" else 5
    for n in range(1, Lc + 1):
        for tup in itertools.product(CHARS, repeat=n):
            yield "char-alphabet", "".join(tup)
    # key/value skeleton + every char pair inserted at the value position
    for tup in itertools.product(CHARS, repeat=2):
        yield "char-pair-in-context", "k = " + "".join(tup) + "\nj = 2\nEND\n"
        yield "char-pair-in-context", "GROUP = g\n k = (1, " + "".join(tup) + ")\nEND_GROUP\n"
    # values: every short token sequence in value position
    VAL = ["(", ")", "{", "}", ",", "1", "'x'", "<m>"] + \
        (["a", "=", ";"] if tier == "thorough" else [])
    # braces and per-cent signs inside quoted strings and units (they end up in
    # error messages), in value position and inside a block
    for b in ("'{}'", '"{x}"', '"see {section 2.1}"', "<{ms}", "<{}>", '"{0}"', "'%s'",
              '"100%"', "'{a.b}'", '"{!r}"', "'{:>9}'"):
        for form in ("a=1{}\n", "a = 1 {}\n", "a = (1 {})\n", "a = {}\n", "{} = 1\n",
                     "GROUP = g\n {}\nEND_GROUP\n", "GROUP = g {}\n", "a = 1\n{}\nEND\n",
                     "GROUP = g\n a = 1\nEND_OBJECT {}\n", "a = 2 <m> {}\n"):
            yield "braces-in-tokens", form.format(b)
    # long words that are almost identifiers
    for n in (20, 28, 34, 48):
        w = ("ORBITERCAMERAMOSAICNORTHPOLARREGION2009A" * 2)[:n]
        for tail in (".IMG", "_", "-x", "/y", ":z", "__", ""):
            yield "long-words", f"PRODUCT_ID = {w}{tail}\nEND\n"
            yield "long-words", f"{w}{tail} = 1\n"
    for n in range(1, 6):
        for tup in itertools.product(VAL, repeat=n):
            yield "value-context", "k = " + " ".join(tup) + "\nj = 2\n"
    # pairs of borderline atoms glued together, as a value and in a sequence
    from .c17 import ATOMS
    for a in ATOMS:
        for b in ATOMS:
            yield "atom-pairs", f"k = {a}{b}\n"
            if tier == "thorough" or hash((a, b)) % 4 == 0:
                yield "atom-pairs", f"k = ({a}{b}, {b}) <m>\nEND\n"
    # words that only casefold / upper-case to a keyword, where keywords stand
    for kw in ("BEG\u0131N_GROUP", "beg\u0131n_object", "BEG\u0131N_OBJECT", "\u0261ROUP",
               "END_\u0261ROUP", "end_ob\u0458ect", "FAL\u017fE", "\uff25\uff2e\uff24",
               "OB\u0408ECT", "Group\u200b", "END\ufeff"):
        for form in ("{} = g\n a = 1\nEND_GROUP\nEND\n", "{} = g x\n", "{}\n",
                     "GROUP = g\n a = 1\n{}\nEND\n", "GROUP = g\n{} = g\nEND_GROUP\n",
                     "a = {}\nEND\n", "{} = o\n b = 2\nEND_OBJECT = o\n",
                     "BEGIN_GROUP = g\n x = 1\n{} = g\n", "a = 1 {}\n"):
            yield "keyword-lookalikes", form.format(kw)
    # lone surrogates (what errors="surrogateescape" makes of binary data)
    for sur in ("\ud800", "\udc00", "\udfff"):
        for form in ("a = 1\n {} b = 2\nGROUP = g\n", "{} = 1\n", "a = {}\n", "a = (1, {})\n",
                     "a = 1 {}\nEND\n", "a = \"q{}\"\n", "/* {} */ a = 1\n", "a = 1 <{}>\n",
                     "GROUP = g\n a = 1\n {}\nEND_GROUP\n", "a = x{}y\n", "{}"):
            yield "lone-surrogates", form.format(sur)
    # numbers at and beyond what int(), float() and Decimal() take
    big = ["1E400", "-1e-400", "1E99999", "1E1000000000000000000",
           "2.5e-99999999999999999999", ".5E+12345678901234567890123",
           "9" * 400, "9" * 4301, "-" + "9" * 5000, "1." + "0" * 4400,
           "0." + "0" * 400 + "1", "1" + "0" * 310 + ".0", "16#" + "F" * 300 + "#",
           "2#" + "10" * 2500 + "#", "-16#" + "A" * 4400 + "#", "10#" + "9" * 4400 + "#",
           "1e", "1e+", "1e5e5", "0x" + "f" * 50, "1" * 50 + "e" + "1" * 50]
    for x in big:
        for form in ("k = {}\n", "k = ({}, 1)\nEND\n", "k = {} <m>\n", "k = {{{}}}\n",
                     "{} = 1\n", "GROUP = {}\nEND_GROUP\n"):
            yield "extreme-numbers", form.format(x)
    # more different words than any one label usually has (one text, and -
    # through the long-lived parsers - over the life of a worker)
    for nw in (1100, 2600):
        words = " ".join(f"w{j}x{j * 7 % 13}" for j in range(nw))
        yield "big-vocabulary", f"k = ({words.replace(' ', ', ')})\nEND\n"
        yield "big-vocabulary", "\n".join(f"name_{j} = value_{j}" for j in range(nw)) \
            + "\nEND\n"
        yield "big-vocabulary", "\n".join(f"t{j} = 2001-01-01T00:00:{j % 60:02d}.{j}"
                                          for j in range(nw)) + "\nEND\n"
    corpus = corpus_texts(pvl)
    step = 7 if tier == "quick" else 1
    for name, t in corpus:
        t = t[:1500] if tier == "quick" else t[:6000]
        for cut in range(0, len(t), step):
            yield "corpus-truncation", t[:cut]
    rng = random.Random(f"C06-{seed}")
    ndocs = 60 if tier == "quick" else 1500
    for i in range(ndocs):
        reader = rng.choice(gt.READERS)
        doc = gt.gen_document(rng, reader, max_top=4)
        text = gt.render(doc.tokens, gt.gen_layout(rng, doc.tokens, reader, "wild"))
        for cut in range(len(text)):
            yield "generated-truncation", text[:cut]
    nsplice = 4000 if tier == "quick" else 200000
    frags = []
    for name, t in corpus:
        for _ in range(6):
            a = rng.randrange(0, max(1, len(t) - 40))
            frags.append(t[a:a + rng.randint(3, 40)])
    for i in range(nsplice):
        k = rng.randint(1, 4)
        s = "".join(rng.choice(frags) for _ in range(k))
        if rng.random() < 0.5:
            pos = rng.randrange(len(s) + 1)
            s = s[:pos] + rng.choice(TOKENS2) + s[pos:]
        yield "corpus-splice", s


def byte_inputs(rec, pvl, i, n, hb):
    """Labels handed over as bytes / binary streams / files (the loaders'
    own decoding runs first): a multi-byte character lying across a
    read-block boundary, with and without undecodable data behind it, with
    and without END.  Judged like every other load: a module, a LexerError
    or a ParseError."""
    import io
    import tempfile
    from .c09 import straddle_label, BLOCKS
    LexerError, ParseError = pvl.exceptions.LexerError, pvl.exceptions.ParseError
    k = 0
    for block in BLOCKS:
        for ch in ("\u00b0", "\u20ac", "\U0001F600"):
            for shift in range(0, len(ch.encode("utf-8")) + 1):
                label = straddle_label(block, ch, shift)
                if label is None:
                    continue
                for tail in (b"", b"\n\xff\xfe\x00\x81", b"\xff", b"\n" + b"\x00" * 40 + b"\x9c\xff",
                             b" \xc3", b"\n\xe2\x82"):
                    for cut_end in (False, True):
                        k += 1
                        if k % n != i:
                            continue
                        hb.beat()
                        data = (label[:-3] if cut_end else label) + tail
                        for route in ("loads(bytes)", "load(binary stream)", "load(path)",
                                      "new.loads(bytes)"):
                            rec.count(f"byte_inputs[{route}]")
                            rec.case(("bytes", block, ch, shift, tail, cut_end, route), True)
                            try:
                                with common.cpu_limit(30):
                                    if route == "loads(bytes)":
                                        pvl.loads(data)
                                    elif route == "new.loads(bytes)":
                                        import pvl.new as pn
                                        pn.loads(data)
                                    elif route == "load(binary stream)":
                                        pvl.load(io.BytesIO(data))
                                    else:
                                        fd, path = tempfile.mkstemp(prefix="pvl-c06-", dir="/dev/shm")
                                        try:
                                            with os.fdopen(fd, "wb") as f:
                                                f.write(data)
                                            pvl.load(path)
                                        finally:
                                            os.unlink(path)
                            except (LexerError, ParseError):
                                pass
                            except common.CaseTimeout:
                                rec.inconc(f"CPU budget exceeded on byte input {k}")
                            except Exception as e:
                                rec.violation(CHECK, "default", "undocumented-exception-type",
                                              {"family": "omni", "exc": type(e).__name__,
                                               "where": innermost_pvl_frame(e), "route": route},
                                              {"route": route, "block": block, "char": ch,
                                               "bytes_before_boundary": shift,
                                               "tail": repr(tail), "without_END": cut_end,
                                               "data_length": len(data)},
                                              f"{type(e).__name__}: {e}"[:300])


def shard(i, n, tier, seed, rec, hb):
    pvl = common.import_pvl()
    holder = {}
    byte_inputs(rec, pvl, i, n, hb)
    for idx, (src, text) in enumerate(strings(tier, seed, pvl)):
        if idx % n != i:
            continue
        hb.beat()
        rec.count(f"strings[{src}]")
        readers = gt.READERS + (DECIMAL_READERS if src in DECIMAL_SOURCES else ())
        for reader in readers:
            rec.case((reader, text), text != "",
                     sample={"reader": reader, "text": text[:120], "source": src}
                     if rec.c["evaluations"] % 50021 == 0 else None)
            # odd shards keep one parser object per configuration throughout
            run_one(rec, pvl, reader, text, holder, src, reuse=bool(i % 2))
    fuzz_stage(i, n, tier, seed, rec, hb)


def fuzz_stage(i, n, tier, seed, rec, hb, prop="C06"):
    """Coverage-guided mutation of the corpus (atheris), judged by run_one."""
    import json
    import shutil
    import subprocess
    import tempfile
    runs = int(os.environ.get("VERIF_FUZZ_RUNS", 3000 if tier == "quick" else 150000))
    work = tempfile.mkdtemp(prefix=f"pvlfuzz{i}.", dir="/dev/shm")
    out = os.path.join(work, "out.json")
    try:
        p = subprocess.Popen(
            [common.PY, "-m", "vlib.fuzz_c06", "--shard", str(i), "--seed", str(seed),
             "--runs", str(runs), "--out", out, "--work", work, "--prop", prop],
            cwd=common.VERIF, stdout=subprocess.DEVNULL, stderr=subprocess.PIPE,
            text=True)
        import threading
        err = []
        t = threading.Thread(target=lambda: err.append(p.stderr.read()), daemon=True)
        t.start()
        while p.poll() is None:
            hb.beat()
            try:
                p.wait(timeout=2)
            except subprocess.TimeoutExpired:
                pass
        t.join(timeout=10)
        stderr = err[0] if err else ""
        try:
            data = json.load(open(out))
        except (OSError, ValueError):
            rec.inconc(f"fuzz stage of shard {i} left no record (rc={p.returncode}): "
                       + stderr[-300:])
            return
        if "not_run" in data:
            rec.count("fuzz_stage_not_run")
            if i == 0:
                rec.notes.append("coverage-guided stage not run (atheris could not "
                                 "be installed offline): " + str(data["not_run"])[:200])
            return
        rec.merge_json(data["rec"])
        for line in stderr.splitlines():
            if line.startswith("stat::new_units_added:"):
                rec.count("fuzz_new_coverage_units", int(line.split()[-1]))
        if p.returncode != 0:
            # libFuzzer stopped on its own (timeout / crash artefact): the
            # unit is in the work directory - keep it as an inconclusive note
            rec.inconc(f"fuzz process of shard {i} ended with rc={p.returncode}: "
                       + stderr[-300:])
    finally:
        shutil.rmtree(work, ignore_errors=True)


def finish_kwargs(rec, tier):
    return dict(
        extra_cov={"exhaustive": True,
                   "explanation": "exhaustive = the token-alphabet and "
                                  "character-alphabet enumerations up to the "
                                  "length bound; truncations and splices are "
                                  "complete per label / sampled"},
        required_counters=("byte_inputs[loads(bytes)]", "byte_inputs[load(path)]", "strings[token-alphabet]", "strings[char-alphabet]",
                           "strings[corpus-truncation]",
                           "strings[generated-truncation]",
                           "strings[corpus-splice]", "strings[value-context]",
                           "strings[atom-pairs]", "strings[extreme-numbers]",
                           "strings[big-vocabulary]", "strings[keyword-lookalikes]", "strings[lone-surrogates]", "strings[braces-in-tokens]", "strings[long-words]",
                           "loads_through_a_long_lived_parser",
                           "outcome[default+Decimal][ok]",
                           "outcome[default][LexerError]", "outcome[PVL][ok]"),
        assumptions=["'terminates' is decided as bounded progress: pulls <= "
                     "50*(len(text)+2) (largest observed ratio is in maxima) "
                     "with a 20 s CPU-time back-stop per load",
                     "RecursionError is excluded only above bracket depth 30"],
    )


def replay(data):
    pvl = common.import_pvl()
    holder = {}
    bad = 0
    for w in data["witnesses"]:
        w = w["witness"]
        parser = traced_parser(pvl, w["reader"], holder)
        try:
            st, res = load(pvl, w["reader"], w["text"], parser=parser, cpu=20)
        except Spin as e:
            st, res = "Spin", e
        print(w["reader"], repr(w["text"])[:200], "->", st, str(res)[:160])
        if st not in ("ok", "LexerError", "ParseError"):
            bad += 1
    return 1 if bad else 0
