"""C11 - copies of a container are equal, independent, leave the original intact.

Snapshot monitor: deep structural snapshot of the original before/after each
copy mechanism; equality and per-level class comparison; the two-representation
invariant on every level of the copy; then mutation histories (the C10
operation set) on either side with the other side's snapshot re-checked.
"""
import copy
import pickle
import random
import warnings

from .. import common
from ..mdmodel import Model, apply_model, apply_real, storage_agrees, compare_views

RULE = (
    "random nested containers (4 classes, duplicate keys, lists/sets/nested "
    "containers as values, optional .errors attribute) x 9 mechanisms "
    "(.copy(), copy.copy, copy.deepcopy, pickle protocols 0-5) x 2 mutation "
    "directions x random C10 histories; a case = (container, mechanism); "
    "distinct by snapshot+mechanism; non-trivial = container has >=1 pair"
)
MECHS = ["copy()", "copy.copy", "copy.deepcopy"] + [f"pickle-{p}" for p in range(6)]
DEEP = {"copy.deepcopy"} | {f"pickle-{p}" for p in range(6)}


def nshards(tier):
    return 8 if tier == "quick" else 16


def snap(x):
    """Deep structural snapshot (class, order, multiplicity, leaf repr)."""
    from pvl.collections import OrderedMultiDict

    if isinstance(x, OrderedMultiDict):
        return (type(x).__name__, tuple((k, snap(v)) for k, v in list(x)))
    if isinstance(x, list):
        return ("list", tuple(snap(v) for v in x))
    if isinstance(x, (set, frozenset)):
        return (type(x).__name__, tuple(sorted(repr(snap(v)) for v in x)))
    if isinstance(x, tuple):
        return (type(x).__name__, tuple(snap(v) for v in x))
    return (type(x).__name__, repr(x))


def all_levels_ok(x):
    from pvl.collections import OrderedMultiDict

    if isinstance(x, OrderedMultiDict):
        if not storage_agrees(x):
            return False
        return all(all_levels_ok(v) for _, v in list(x))
    if isinstance(x, list):
        return all(all_levels_ok(v) for v in x)
    return True


def nested_containers(x, out=None):
    """Every mutable object below *x*: containers, lists and sets, also the
    ones held inside tuples and quantities."""
    from pvl.collections import OrderedMultiDict

    out = [] if out is None else out
    if isinstance(x, OrderedMultiDict):
        children = [v for _, v in list(x)]
    elif isinstance(x, (list, tuple)):
        children = list(x)
    else:
        children = []
    for v in children:
        if isinstance(v, (OrderedMultiDict, list, set)):
            out.append(v)
        nested_containers(v, out)
    return out


def gen_container(rng, col, depth=0, top=True):
    classes = [col.OrderedMultiDict, col.PVLModule, col.PVLGroup, col.PVLObject]
    cls = rng.choice(classes) if top else rng.choice(classes[2:] + classes[:1])
    n = rng.choice((0, 1, 2, 3, 4, 6)) if not top else rng.choice((1, 2, 3, 5, 8))
    c = cls()
    # (two keys have characters at their ends that str.strip() would remove,
    # one of them differs from "a" only by those)
    keys = ("a", "b", "c", "Long_Key", "a\xa0", " \x1cpad\u2003")
    for _ in range(n):
        r = rng.random()
        if r < 0.35 or depth >= 3:
            v = rng.choice((1, 2.5, "x", "", None, True, "two words"))
        elif r < 0.5:
            v = [1, "x", [2, 3]] if rng.random() < 0.5 else []
        elif r < 0.6:
            v = frozenset((1, 2)) if rng.random() < 0.5 else {3, "s"}
        elif r < 0.65:
            v = col.Quantity(1.5, "m")
        elif r < 0.72:
            # hashable-looking wrappers around mutable values
            v = rng.choice((lambda: col.Quantity([1, 2, 3], "nm"),
                            lambda: col.Quantity({1, 2}, "m"),
                            lambda: (1, [2, 3]),
                            lambda: [col.Quantity([4, [5]], "s")]))()
        else:
            v = gen_container(rng, col, depth + 1, top=False)
        c.append(rng.choice(keys), v)
    if rng.random() < 0.3:
        c.errors = [1, 5]
    return c


def do_copy(mech, m):
    if mech == "copy()":
        return m.copy()
    if mech == "copy.copy":
        return copy.copy(m)
    if mech == "copy.deepcopy":
        return copy.deepcopy(m)
    proto = int(mech.split("-")[1])
    return pickle.loads(pickle.dumps(m, protocol=proto))


def classes_match(a, b):
    from pvl.collections import OrderedMultiDict

    if type(a) is not type(b):
        return False
    if isinstance(a, OrderedMultiDict):
        la, lb = list(a), list(b)
        return len(la) == len(lb) and all(
            classes_match(x[1], y[1]) for x, y in zip(la, lb))
    if isinstance(a, list):
        return len(a) == len(b) and all(classes_match(x, y) for x, y in zip(a, b))
    return True


def rand_op(rng, n):
    K = ("a", "b", "c", "zz")
    r = rng.random()
    v = rng.choice((7, "m", None, [9]))
    if r < 0.2:
        return ("append", rng.choice(K), v)
    if r < 0.35:
        return ("setitem", rng.choice(K), v)
    if r < 0.5:
        return ("insert3", rng.randint(-n - 1, n + 1), rng.choice(K), v)
    if r < 0.6:
        return ("pop0",)
    if r < 0.7:
        return ("discard", rng.choice(K))
    if r < 0.8:
        return ("update", [(rng.choice(K), v)], {})
    if r < 0.9:
        return ("extend", [(rng.choice(K), v), (rng.choice(K), 1)], {})
    if r < 0.93:
        return ("setdefault", rng.choice(K), v)
    if r < 0.98:
        return (rng.choice(("insert_before", "insert_after")), rng.choice(K),
                (rng.choice(K), v), rng.choice((0, 0, 1, -1)))
    return ("clear",)


def mutate(rng, target, deep, log):
    """Apply a short random history to *target* (and nested levels if deep).
    Returns True if something was (attempted to be) changed."""
    from pvl.collections import OrderedMultiDict

    objs = [target]
    if deep:
        objs += nested_containers(target)
    changed = False
    for o in objs:
        if o is not target and rng.random() < 0.4:
            continue
        if isinstance(o, list):
            o.append("mutated")
            log.append(("list.append",))
            changed = True
            continue
        if isinstance(o, set):
            o.add("mutated")
            log.append(("set.add",))
            changed = True
            continue
        for _ in range(rng.randint(1, 4)):
            op = rand_op(rng, len(o))
            apply_real(o, op)
            log.append(op)
            changed = True
    return changed


def one_case(rec, rng, col, m, mech, wit):
    feats = {"mechanism": mech.split("-")[0]}
    dup = len({k for k, _ in list(m)}) != len(m)
    feats["dup_keys"] = dup
    before = snap(m)
    # a container that has been *used* (views taken, compared, indexed) must
    # copy just as well as a fresh one
    if rng.random() < 0.7:
        with warnings.catch_warnings():
            warnings.simplefilter("ignore")
            list(m.keys()), list(m.values()), list(m.items()), len(m)
            m == m, m != m, bool(m)
            for k in list(m.keys())[:2]:
                m[k], m.getall(k), m.get(k), k in m, m.key_index(k)
        rec.count("original_used_before_copy")
    try:
        with warnings.catch_warnings():
            warnings.simplefilter("ignore")
            c = do_copy(mech, m)
    except Exception as e:
        rec.violation("C11", mech.split("-")[0], "copy-raised",
                      {**feats, "exc": type(e).__name__}, wit, repr(e))
        return
    rec.count(f"copies[{mech}]")
    if snap(m) != before:
        rec.violation("C11", mech.split("-")[0], "original-changed-by-copying",
                      feats, wit, f"{before} -> {snap(m)}")
        return
    if not all_levels_ok(c):
        rec.violation("C11", mech.split("-")[0], "copy-representations-disagree",
                      feats, wit, f"copy list={list(c)!r}")
        return
    try:
        eq = (c == m) and (m == c) and not (c != m)
    except Exception as e:
        eq = False
    if not eq or snap(c) != before:
        rec.violation("C11", mech.split("-")[0], "copy-not-equal", feats, wit,
                      f"orig={before} copy={snap(c)}")
        return
    if not classes_match(c, m):
        rec.violation("C11", mech.split("-")[0], "class-differs", feats, wit,
                      f"orig={before} copy={snap(c)}")
        return
    deep = mech in DEEP
    # the copy's own views and comparisons must show the copy, not the original
    # direction 1: mutate the copy, original must not move
    for direction in ("copy->orig", "orig->copy"):
        for rep in range(2):
            src, other = (c, m) if direction == "copy->orig" else (m, c)
            other_before = snap(other)
            log = []
            # for shallow copies only the top level is independent
            mutate(rng, src, deep, log)
            rec.count("mutation_histories")
            if snap(other) != other_before:
                rec.violation(
                    "C11", mech.split("-")[0], "not-independent",
                    {**feats, "direction": direction}, {**wit, "mutations": log},
                    f"{direction}: {other_before} -> {snap(other)}")
                return
            views_ok = True
            for obj in (src, other):
                with warnings.catch_warnings():
                    warnings.simplefilter("ignore")
                    lst = list(obj)
                    if list(obj.items()) != lst or \
                            list(obj.keys()) != [k for k, _ in lst] or \
                            list(obj.values()) != [v for _, v in lst] or \
                            (obj == type(obj)(lst)) is not True:
                        views_ok = False
                    # every accessor (lookup, getall, key_index in every
                    # instance, view indexing ...) must show this side's own list
                    try:
                        bad = compare_views(obj, Model(lst), ("a", "b", "c", "zz",
                                                             "Long_Key", "a\xa0",
                                                             " \x1cpad\u2003"),
                                            (7, "m", None), rec.c)
                    except Exception as e:      # an accessor died
                        bad = [("accessor raised", type(e).__name__, str(e)[:100])]
                    if bad:
                        views_ok = False
                        log = log + [("first disagreement", bad[0])]
            if not views_ok:
                rec.violation("C11", mech.split("-")[0],
                              "views-of-copy-or-original-show-the-other-side",
                              {**feats, "direction": direction},
                              {**wit, "mutations": log}, "")
                return
            if not all_levels_ok(other) or not all_levels_ok(src):
                rec.violation("C11", mech.split("-")[0],
                              "representations-disagree-after-mutation",
                              {**feats, "direction": direction},
                              {**wit, "mutations": log}, "")
                return


def shard(i, n, tier, seed, rec, hb):
    pvl = common.import_pvl()
    col = pvl.collections
    total = 2400 if tier == "quick" else 150000
    for j in range(i, total, n):
        hb.beat()
        rng = random.Random(f"C11-{seed}-{j}")
        for mech in MECHS:
            rngm = random.Random(f"C11-{seed}-{j}")
            m = gen_container(rngm, col)
            s0 = snap(m)
            wit = {"container_seed": f"C11-{seed}-{j}", "mechanism": mech,
                   "snapshot": repr(s0)[:600]}
            one_case(rec, rng, col, m, mech, wit)
            rec.case((s0, mech), len(m) > 0,
                     sample=wit if j % 97 == 0 and mech == "copy.deepcopy" else None)
            if nested_containers(m):
                rec.count("containers_with_nested_levels")
            if len({k for k, _ in list(m)}) != len(m):
                rec.count("containers_with_duplicate_keys")
    # loader-produced modules (they carry an .errors attribute)
    if i == 0:
        for text in ("a = 1\nb =\nc = 3\nGROUP = g\n x = (1,2)\n x = 3\nEND_GROUP\nEND",
                     "OBJECT = o\n GROUP = g\n  k = {1,2}\n END_GROUP\nEND_OBJECT\nEND"):
            for mech in MECHS:
                m = pvl.loads(text)
                wit = {"text": text, "mechanism": mech}
                one_case(rec, random.Random(seed), col, m, mech, wit)
                rec.case((text, mech), True)
                rec.count("loader_modules")


def finish_kwargs(rec, tier):
    return dict(
        required_counters=["mutation_histories", "original_used_before_copy",
                           "containers_with_nested_levels",
                           "containers_with_duplicate_keys"]
        + [f"copies[{m}]" for m in MECHS],
        assumptions=["shallow copies promise top-level independence only; "
                     "deep copies and pickles every level"],
    )


def replay(data):
    pvl = common.import_pvl()
    col = pvl.collections
    rec = common.Rec()
    for w in data["witnesses"]:
        w = w["witness"]
        if "text" in w:
            m = pvl.loads(w["text"])
        else:
            m = gen_container(random.Random(w["container_seed"]), col)
        print("container:", snap(m), "mechanism:", w["mechanism"])
        for s in range(20):
            one_case(rec, random.Random(s), col,
                     pvl.loads(w["text"]) if "text" in w else
                     gen_container(random.Random(w["container_seed"]), col),
                     w["mechanism"], w)
    for ent in rec.viol.values():
        print("VIOLATES:", ent["record"], ent["witnesses"][0]["message"][:300])
    return 1 if rec.viol else 0
