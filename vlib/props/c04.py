"""C04 - white space and comments never change the meaning of a label.

Metamorphic monitor: one token list, a plain layout and several 'wild'
layouts that differ only where the grammar makes white space optional or
interchangeable; every layout must load, and to the same module."""
import random

from .. import common
from .. import gen_text as gt
from ..textrun import load, minimise_layout, gap_feature, sep_class, tok_class

CHECK = "C04"
RULE = (
    "C03's documents; each rendered with a plain layout and 4 random layouts "
    "(separators: empty where optional, spaces, tabs, LF, CRLF, CR, FF, VT, "
    "runs, /* */ comments with hostile bodies also adjacent to tokens, '#' "
    "comments set off by white space for ISIS/default); plus every loadable "
    "tests/data label split at the lexer's token boundaries and re-laid-out "
    "(white-space gaps replaced by other white space / comment runs) 20 (quick) "
    "or 400 (thorough) times; plus documents with missing values under the "
    "two permissive readers. distinct = (reader, "
    "document seed, layout index); non-trivial = layout differs from plain. "
    "coverage.triples counts (token kind, separator class, token kind)"
)
LAYOUTS = 4


def nshards(tier):
    return 16


def case(rec, pvl, reader, key):
    rng = random.Random(key)
    doc = gt.gen_document(rng, reader)
    toks = doc.tokens
    plain = gt.plain_layout(toks)
    st, base = load(pvl, reader, gt.render(toks, plain))
    if not (st == "ok" and gt.same_tree(doc.tree, base) is None):
        rec.count("base_document_not_judged_here")   # C03's subject
        return
    for li in range(LAYOUTS):
        seps = gt.gen_layout(rng, toks, reader, "wild")
        text = gt.render(toks, seps)
        for i in range(len(seps)):
            prev = toks[i - 1] if i > 0 else None
            nxt = toks[i] if i < len(toks) else None
            rec.count(f"triple[{tok_class(prev)}|{sep_class(seps[i])}|{tok_class(nxt)}]")
        rec.count("gaps_exercised", len(seps))
        rec.case((reader, key, li), seps != plain,
                 sample={"reader": reader, "seed": key, "text": text[:400]}
                 if rec.c["evaluations"] % 2503 == 0 else None)
        st2, m2 = load(pvl, reader, text)
        if st2 == "timeout":
            rec.inconc(f"CPU budget exceeded: {key}/{li}")
            continue
        ok = st2 == "ok" and gt.same_tree(doc.tree, m2) is None
        rec.count(f"layouts[{reader}]")
        if ok:
            continue

        def fails(s):
            a, b = load(pvl, reader, gt.render(toks, s))
            return not (a == "ok" and gt.same_tree(doc.tree, b) is None)

        culprits, cur = minimise_layout(toks, seps, plain, fails)
        feats = gap_feature(toks, cur, culprits[0]) if culprits else \
            {"prev": "?", "sep": "?", "next": "?"}
        feats["effect"] = "load-fails" if st2 != "ok" else "module-differs"
        # refine comment separators by their body
        if culprits:
            s = cur[culprits[0]]
            if feats["sep"] == "hash-comment":
                feats["hash_body_has_block_comment_delimiter"] = \
                    ("/*" in s or "*/" in s)
        rec.violation(CHECK, reader, "layout-changes-result", feats,
                      {"reader": reader, "seed": key, "layout": li,
                       "minimal_text": gt.render(toks, cur),
                       "culprit_separator": cur[culprits[0]] if culprits else None,
                       "text": text[:1200]},
                      f"{st2}: {str(m2)[:200]}" if st2 != "ok" else
                      str(gt.same_tree(doc.tree, m2)))


def missing_case(rec, pvl, reader, key):
    """Labels with missing values load under the permissive readers (C08); a
    label that loads must keep loading, to the same statements, whatever white
    space and comments stand between its tokens (the placeholders' line numbers
    follow the layout and are not compared)."""
    from .c08 import assignments, clone_tree, preorder
    rng = random.Random(key)
    while True:
        doc = gt.gen_document(rng, reader, max_top=5)
        if not any(c == "seq-inside-set" for c, _ in doc.meta):
            break
    asg = assignments(doc)
    if not asg:
        return
    chosen = rng.sample(asg, rng.randint(1, min(3, len(asg))))
    drop = set()
    for sid, vals, eqi in chosen:
        drop.update(vals)
    toks = [t for i, t in enumerate(doc.tokens) if i not in drop]
    tree = clone_tree(doc.tree)
    order = preorder(tree, [])
    for sid, vals, eqi in chosen:
        lst, idx = order[sid - 1]
        lst[idx] = (lst[idx][0], gt.Missing())
    plain = gt.plain_layout(toks)
    st, base = load(pvl, reader, gt.render(toks, plain))
    if not (st == "ok" and gt.same_tree(tree, base) is None):
        rec.count("base_document_not_judged_here")    # C08's subject
        return
    for li in range(LAYOUTS):
        seps = gt.gen_layout(rng, toks, reader, "wild")
        text = gt.render(toks, seps)
        rec.case((reader, key, "missing", li), seps != plain)
        rec.count(f"layouts_with_missing_values[{reader}]")
        st2, m2 = load(pvl, reader, text)
        if st2 == "timeout":
            rec.inconc(f"CPU budget exceeded: {key}/{li}")
            continue
        if st2 == "ok" and gt.same_tree(tree, m2) is None:
            continue

        def fails(s2):
            a, b = load(pvl, reader, gt.render(toks, s2))
            return not (a == "ok" and gt.same_tree(tree, b) is None)

        culprits, cur = minimise_layout(toks, seps, plain, fails)
        feats = gap_feature(toks, cur, culprits[0]) if culprits else \
            {"prev": "?", "sep": "?", "next": "?"}
        feats["effect"] = "load-fails" if st2 != "ok" else "module-differs"
        feats["label_has_missing_values"] = True
        rec.violation(CHECK, reader, "layout-changes-result", feats,
                      {"reader": reader, "seed": key, "layout": li,
                       "minimal_text": gt.render(toks, cur),
                       "culprit_separator": cur[culprits[0]] if culprits else None,
                       "text": text[:1200]},
                      f"{st2}: {str(m2)[:200]}" if st2 != "ok" else
                      str(gt.same_tree(tree, m2)))


# --------------------------------------------------------------------------
# corpus workload: every tests/data label that loads is split at the token
# boundaries the lexer reports (trace proxy) and its white-space separators are
# replaced by other non-empty runs of white space and comments
# --------------------------------------------------------------------------
def corpus_files(pvl):
    import os
    root = os.path.join(common.REPO, "tests", "data")
    out = []
    for dp, dn, fn in os.walk(root):
        for f in sorted(fn):
            p = os.path.join(dp, f)
            try:
                out.append((os.path.relpath(p, root), pvl.get_text_from(p)))
            except Exception:
                continue
    return out


def corpus_case(rec, pvl, name, text, rng, n_layouts):
    from ..trace import traced_parser
    from ..normalise import snapshot
    holder = {}
    st, base = load(pvl, "default", text, parser=traced_parser(pvl, "default", holder))
    if st != "ok" or "-\n" in text or "-\r" in text or getattr(base, "errors", None):
        # broken label, dash continuation, or missing values (their placeholders
        # carry line numbers, which a new layout legitimately changes)
        rec.count("corpus_label_not_used")
        return
    tr = holder["trace"]
    doc = holder["text"]
    toks = [(t, p) for t, p in tr.fresh if p is not None]
    # keep only tokens that are found at their reported position
    pieces, pos = [], 0
    for t, p in toks:
        if p < pos or doc[p:p + len(t)] != t:
            rec.count("corpus_label_not_used")
            return
        pieces.append(("sep", doc[pos:p]))
        pieces.append(("tok", t))
        pos = p + len(t)
    tail = doc[pos:]
    base_snap = snapshot(base)
    rec.count("corpus_labels_relaid")
    for li in range(n_layouts):
        out = []
        changed = 0
        for kind, s in pieces:
            if kind == "tok" or s == "" or s.strip(" \t\r\n\f\v") != "":
                out.append(s)           # tokens, empty gaps, gaps holding comments
                continue
            prev = out[-1] if out else ""
            new = gt.gen_sep(rng, "default", False, "wild", None, None)
            if new == "" or prev.endswith("-"):
                new = s
            if prev.endswith(("/", "*")) and new.startswith(("/", "*")):
                new = " " + new
            out.append(new)
            changed += 1
        new_text = "".join(out) + tail
        rec.case(("corpus", name, li), changed > 0)
        rec.count("corpus_gaps_replaced", changed)
        st2, m2 = load(pvl, "default", new_text)
        if st2 == "timeout":
            rec.inconc(f"CPU budget exceeded on corpus label {name}")
            continue
        if st2 != "ok" or snapshot(m2) != base_snap:
            rec.violation(CHECK, "default", "corpus-relayout-changes-result",
                          {"effect": "load-fails" if st2 != "ok" else "module-differs"},
                          {"file": name, "layout": li, "text": new_text[:1500]},
                          f"{st2}: {str(m2)[:200]}")
        else:
            rec.count("corpus_layouts_agree")


# a grammar and a decoder of different dialects given together: there is no
# specification tree for these, so the plain layout of the same tokens is the
# reference (purely metamorphic)
MIXED = {
    "ISISGrammar+PVLDecoder": ("ISIS", lambda pvl: pvl.parser.OmniParser(
        grammar=pvl.grammar.ISISGrammar(), decoder=pvl.decoder.PVLDecoder())),
    "OmniGrammar+ODLDecoder": ("default", lambda pvl: pvl.parser.OmniParser(
        grammar=pvl.grammar.OmniGrammar(), decoder=pvl.decoder.ODLDecoder())),
    "OmniGrammar+PDSLabelDecoder": ("default", lambda pvl: pvl.parser.OmniParser(
        grammar=pvl.grammar.OmniGrammar(), decoder=pvl.decoder.PDSLabelDecoder())),
    "PVLGrammar+OmniDecoder": ("PVL", lambda pvl: pvl.parser.PVLParser(
        grammar=pvl.grammar.PVLGrammar(), decoder=pvl.decoder.OmniDecoder())),
}


def mixed_case(rec, pvl, config, key):
    from ..normalise import snapshot
    reader, mk = MIXED[config]
    rng = random.Random(key)
    doc = gt.gen_document(rng, reader)
    if any(c == "seq-inside-set" for c, _ in doc.meta):
        return
    toks = doc.tokens
    plain = gt.plain_layout(toks)
    st, base = load(pvl, reader, gt.render(toks, plain), parser=mk(pvl))
    if st != "ok":
        rec.count("mixed_base_not_loadable")
        return
    want = (snapshot(base), list(getattr(base, "errors", [])) == [])
    for li in range(LAYOUTS):
        seps = gt.gen_layout(rng, toks, reader, "wild")
        text = gt.render(toks, seps)
        rec.case((config, key, li), seps != plain)
        rec.count(f"layouts[{config}]")

        def result(s):
            a, b = load(pvl, reader, gt.render(toks, s), parser=mk(pvl))
            if a != "ok":
                return a
            # (line numbers of missing values move with the layout: only
            # whether there are any is compared)
            return (snapshot(b), list(getattr(b, "errors", [])) == [])

        got = result(seps)
        if got == "timeout":
            rec.inconc(f"CPU budget exceeded: {key}/{li}")
            continue
        if got == want:
            continue
        culprits, cur = minimise_layout(toks, seps, plain, lambda s: result(s) != want)
        feats = gap_feature(toks, cur, culprits[0]) if culprits else \
            {"prev": "?", "sep": "?", "next": "?"}
        feats["effect"] = "load-fails" if isinstance(got, str) else "module-differs"
        rec.violation(CHECK, config, "layout-changes-result", feats,
                      {"reader": config, "seed": key, "layout": li,
                       "minimal_text": gt.render(toks, cur),
                       "culprit_separator": cur[culprits[0]] if culprits else None,
                       "text": text[:1200]}, str(got)[:200])


def shard(i, n, tier, seed, rec, hb):
    pvl = common.import_pvl()
    per = 1200 if tier == "quick" else 40000
    # which dialect a worker uses first differs from shard to shard
    blocks = [("mixed", c) for c in MIXED] + [("reader", r) for r in gt.READERS]
    for kind, which in common.rotated(blocks, i * 3):
        if kind == "mixed":
            for j in range(i, 320 if tier == "quick" else 8000, n):
                hb.beat()
                mixed_case(rec, pvl, which, f"C04-mixed-{seed}-{which}-{j}")
        else:
            for j in range(i, per, n):
                hb.beat()
                case(rec, pvl, which, f"C04-{seed}-{which}-{j}")
                if which in ("default", "ISIS") and j % 3 == 0:
                    missing_case(rec, pvl, which, f"C04-mv-{seed}-{which}-{j}")
    for k, (name, text) in enumerate(corpus_files(pvl)):
        if k % n != i:
            continue
        hb.beat()
        corpus_case(rec, pvl, name, text, random.Random(f"C04-corpus-{seed}-{name}"),
                    20 if tier == "quick" else 400)


def finish_kwargs(rec, tier):
    triples = {k[len("triple["):-1]: v for k, v in rec.c.items()
               if k.startswith("triple[")}
    return dict(extra_cov={"distinct_triples": len(triples), "triples": triples},
                required_counters=[f"layouts[{r}]" for r in gt.READERS]
                + ["gaps_exercised", "corpus_labels_relaid",
                   "layouts_with_missing_values[default]",
                   "layouts_with_missing_values[ISIS]",
                   "corpus_layouts_agree", "corpus_gaps_replaced"],
                assumptions=["gap rules of DESIGN 3.3: white space optional "
                             "around = , ( ) { } ; before <units> and after a "
                             "closing quote; required after <units> and "
                             "between word-like tokens; Omni-based readers: no "
                             "token ending in '-' directly before a line break"])


def replay(data):
    pvl = common.import_pvl()
    rec = common.Rec()
    for w in data["witnesses"]:
        w = w["witness"]
        print("---", w["reader"], w["seed"], "culprit:", repr(w.get("culprit_separator")))
        print("minimal text:", repr(w["minimal_text"]))
        print("   ->", load(pvl, w["reader"], w["minimal_text"])[0])
        case(rec, pvl, w["reader"], w["seed"])
    for ent in rec.viol.values():
        print("VIOLATES:", ent["record"], ent["witnesses"][0]["message"][:300])
    return 1 if rec.viol else 0
