"""C03 - well-formed text decodes to the values the dialect grammar assigns.

Oracle: the expected tree is computed by the document generator from the
abstract document and the specification (vlib/gen_text.py), never by the
library's encoder or decoder."""
import random

from .. import common
from .. import gen_text as gt
from ..textrun import load, minimise_layout, gap_feature, interfere

CHECK = "C03"
RULE = (
    "grammar-directed documents (assignments, nested blocks with BEGIN_/plain "
    "keywords in any letter case, optional ';', optional end names, optional "
    "END) whose values are spelled freely within the dialect (signed ints, "
    "based ints in every permitted radix/sign position, reals in 8 forms, "
    "both quote kinds, unquoted strings, keywords in any case, dates/times, "
    "nested sets/sequences, units) under a random layout; x 5 parser "
    "configurations; a quarter of the loads are preceded by a load of the same "
    "text through a differently configured parser (Decimal / Fraction reals "
    "and another quantity class, caller's container classes, another "
    "dialect). distinct = (reader, document seed); non-trivial = all. "
    "coverage.matrix counts (spelling class x context x reader) cells"
)


def nshards(tier):
    return 16


def classify_failure(pvl, reader, doc, seps, plain, outcome):
    """Return (kind, features, extra witness)."""
    toks = doc.tokens
    text_plain = gt.render(toks, plain)
    st, res = load(pvl, reader, text_plain)
    plain_ok = st == "ok" and gt.same_tree(doc.tree, res) is None
    if plain_ok:
        def fails(s):
            st2, r2 = load(pvl, reader, gt.render(toks, s))
            return not (st2 == "ok" and gt.same_tree(doc.tree, r2) is None)
        culprits, cur = minimise_layout(toks, seps, plain, fails)
        f = gap_feature(toks, cur, culprits[0]) if culprits else \
            {"prev": "?", "sep": "?", "next": "?"}
        return [("fails-only-under-layout", f,
                 {"minimal_text": gt.render(toks, cur)})]
    # spelling / structure: find the top-level statements that fail alone
    results = []
    for idx, (a, b) in enumerate(doc.top):
        ts = toks[a:b]
        sub = gt.render(ts, gt.plain_layout(ts))
        st2, r2 = load(pvl, reader, sub)
        if st2 == "ok" and gt.same_tree([doc.tree[idx]], r2) is None:
            continue
        out2 = st2 if st2 != "ok" else "loaded-differently"
        # a sequence inside a set?
        depth_set, seq_in_set = [], False
        for t in ts:
            if t.kind in (gt.LB, gt.LP):
                if t.kind == gt.LP and gt.LB in depth_set:
                    seq_in_set = True
                depth_set.append(t.kind)
            elif t.kind in (gt.RB, gt.RP) and depth_set:
                depth_set.pop()
        if seq_in_set:
            probe = load(pvl, reader, "K = {(1, 2)}\n")[0]
            if probe != "ok":
                results.append((
                    "set-containing-sequence-rejected", {"outcome": probe},
                    {"minimal_text": "K = {(1, 2)}\n", "statement": sub[:300]}))
                continue
        for v in [t for t in ts if t.kind == gt.VAL]:
            txt = f"K = {v.text}\n"
            st3, r3 = load(pvl, reader, txt)
            if st3 != "ok":
                results.append(("spelling-rejected-or-misread",
                                {"spelling": v.cls, "outcome": st3},
                                {"minimal_text": txt, "statement": sub[:300]}))
                break
        else:
            results.append(("statement-misread",
                            {"outcome": out2, "block": ts[0].kind == gt.BEGIN},
                            {"minimal_text": sub[:800]}))
    if results:
        return results
    return [("document-misread", {"outcome": outcome},
             {"plain_text": text_plain[:800]})]


# Hand-written string contents around the edges of the folding rule (what
# the random shapes put in the middle of a string stands here at its ends).
# Expected values: normalise.fold for the readers that fold, verbatim for PVL.
STRING_EDGES = (
    "abc-\n   ", "abc-\n", "abc -\n\t", "abc-\n   \n", "-\n   def", "-\n",
    "abc-\n   -\n  def", "abc- \n def", "abc-\n\n def", " \n abc", "abc \n ",
    "\n", " - ", "-", "a -\n b", "a-\nb-\nc-\n", "one two-\n      ",
    "abc-\t\n def", "abc--\n def", "-\n-\n", "abc-\n  def  ", "  abc-\n  def",
)


def string_edges(rec, pvl):
    """Every STRING_EDGES content between both quote kinds, alone, followed
    by another statement, and as a member of a sequence; x 5 readers."""
    for reader in gt.READERS:
        for content in STRING_EDGES:
            exp = gt.fold(content) if reader in gt.ODL_FAMILY_READ else content
            for q in ('"', "'"):
                lit = q + content + q
                for shape, text, tree in (
                        ("alone", f"a = {lit}\nEND\n", [("a", exp)]),
                        ("then-statement", f"a = {lit}\nb = 1\nEND\n",
                         [("a", exp), ("b", 1)]),
                        ("no-end", f"a = {lit}", [("a", exp)]),
                        ("in-sequence", f"s = (\"x\", {lit})\nEND\n",
                         [("s", ["x", exp])])):
                    st, res = load(pvl, reader, text)
                    rec.count("string_edge_loads")
                    rec.case((reader, "edge", content, q, shape), True)
                    if st == "ok" and gt.same_tree(tree, res) is None:
                        rec.count(f"agree[{reader}]")
                        continue
                    msg = f"{st}: {res!r}"[:300]
                    rec.violation(CHECK, reader, "string-edge-misread",
                                  {"content": content, "shape": shape,
                                   "outcome": st if st != "ok" else "loaded-differently"},
                                  {"reader": reader, "text": text, "expected": repr(tree)},
                                  msg)


# Words that begin like a date or a time and end like a zone offset, but are in
# no dialect's date/time notation (offsets belong to times; seconds = 60 takes
# no offset): in the two permissive grammars, where '+' and ':' are ordinary
# characters, they are unquoted strings.
NEARLY_TEMPORAL = ("1990-07-04+05", "1990-185+5", "1990-07-04-05", "12:00:60+05",
                   "2001-01-01+00:30", "2001-001-0130", "1990-07+05", "12:00:60-0530",
                   "2015-06-30T23:59:60+01")


def nearly_temporal(rec, pvl):
    from .. import datespec
    for reader in ("default", "ISIS"):
        for w in NEARLY_TEMPORAL:
            assert datespec.read(w, reader)[0] == "not-temporal", w
            for shape, text, tree in (
                    ("alone", f"a = {w}\nEND\n", [("a", w)]),
                    ("in-sequence", f"s = (1, {w}, x)\nEND\n", [("s", [1, w, "x"])]),
                    ("in-block", f"GROUP = g\n  a = {w}\nEND_GROUP\nEND\n",
                     [("g", gt.Block("group", [("a", w)]))])):
                st, res = load(pvl, reader, text)
                rec.count("nearly_temporal_loads")
                rec.case((reader, "nearly-temporal", w, shape), True)
                if st == "ok" and gt.same_tree(tree, res) is None:
                    rec.count(f"agree[{reader}]")
                    continue
                rec.violation(CHECK, reader, "spelling-rejected-or-misread",
                              {"spelling": "unquoted:nearly-temporal", "shape": shape,
                               "outcome": st if st != "ok" else "loaded-differently"},
                              {"reader": reader, "text": text, "expected": repr(tree)},
                              f"{st}: {res!r}"[:300])


_LONG_LIVED = {}


def case(rec, pvl, reader, key, reuse=False):
    rng = random.Random(key)
    doc = gt.gen_document(rng, reader)
    seps = gt.gen_layout(rng, doc.tokens, reader, "wild")
    text = gt.render(doc.tokens, seps)
    how = None
    if rng.random() < 0.25:
        # the same text first goes through a differently configured parser;
        # the judged load below must not notice
        try:
            how = interfere(pvl, reader, text, rng)
            rec.count(f"preceded_by_other_configuration[{how}]")
        except common.CaseTimeout:
            pass
    parser = None
    if reuse:
        # one parser object per reader for the life of this worker; it is also
        # fed the same text cut off at a random place (a failure part-way
        # through a statement, a nested value, a block) before the judged load
        from ..gen_values import strict_parser
        if reader not in _LONG_LIVED:
            _LONG_LIVED[reader] = strict_parser(pvl, reader)
        parser = _LONG_LIVED[reader]
        rec.count("loads_through_a_long_lived_parser")
        if rng.random() < 0.5 and len(text) > 3:
            load(pvl, reader, text[:rng.randrange(1, len(text))], parser=parser)
    st, res = load(pvl, reader, text, parser=parser)
    for cls, ctx in doc.meta:
        rec.count(f"matrix[{reader}][{cls}][{ctx}]")
    rec.case((reader, key), True,
             sample={"reader": reader, "seed": key, "text": text[:500]}
             if rec.c["evaluations"] % 1201 == 0 else None)
    rec.count(f"documents[{reader}]")
    if st == "timeout":
        rec.inconc(f"CPU budget exceeded: {key}")
        return
    diff = None
    if st == "ok":
        diff = gt.same_tree(doc.tree, res)
        if diff is None:
            rec.count(f"agree[{reader}]")
            return
        outcome = "loaded-differently"
        msg = f"{diff[0]}: {diff[1]}"
    else:
        outcome = st
        msg = f"{st}: {res}"[:300]
    for kind, feats, extra in classify_failure(
            pvl, reader, doc, seps, gt.plain_layout(doc.tokens), outcome):
        wit = {"reader": reader, "seed": key, "text": text[:1500],
               "preceded_by_load_with": how, "long_lived_parser": reuse}
        if reuse:
            st0, res0 = load(pvl, reader, text)
            if st0 == "ok" and gt.same_tree(doc.tree, res0) is None:
                feats = dict(feats, only_with_long_lived_parser=True)
        wit.update(extra)
        if how is not None:
            # does the text load correctly in a process that never saw the
            # other configuration?  (classify_failure ran in this process)
            feats = dict(feats, after_other_configuration=how)
        rec.violation(CHECK, reader, kind, feats, wit, msg)


def shard(i, n, tier, seed, rec, hb):
    pvl = common.import_pvl()
    per = 2400 if tier == "quick" else 150000
    if i == 0:
        string_edges(rec, pvl)
        nearly_temporal(rec, pvl)
    for reader in common.rotated(gt.READERS, i):
        for j in range(i, per, n):
            hb.beat()
            # every fourth worker keeps one parser object per reader
            case(rec, pvl, reader, f"C03-{seed}-{reader}-{j}", reuse=(i % 4 == 2))


def finish_kwargs(rec, tier):
    cells = {k: v for k, v in rec.c.items() if k.startswith("matrix[")}
    matrix = {}
    for k, v in cells.items():
        reader, cls, ctx = k[len("matrix["):-1].split("][")
        matrix.setdefault(reader, {}).setdefault(cls, {})[ctx] = v
    req = [f"agree[{r}]" for r in gt.READERS]
    req += ["loads_through_a_long_lived_parser", "string_edge_loads", "nearly_temporal_loads",
            "preceded_by_other_configuration[decimal]",
            "preceded_by_other_configuration[other-dialect]"]
    return dict(extra_cov={"matrix_cells_hit": len(cells), "matrix": matrix},
                required_counters=req,
                assumptions=["expected values per the Blue Book / ODL BNF as "
                             "encoded in vlib/gen_text.py; ODL-family string "
                             "content restricted to what spec and library "
                             "documentation agree on (DESIGN 3.3)"])


def replay(data):
    pvl = common.import_pvl()
    rec = common.Rec()
    for w in data["witnesses"]:
        w = w["witness"]
        print("---", w["reader"], w["seed"])
        for k in ("minimal_text", "plain_text"):
            if k in w:
                print(k + ":", repr(w[k]))
                print("   ->", load(pvl, w["reader"], w[k])[0])
        case(rec, pvl, w["reader"], w["seed"])
    for ent in rec.viol.values():
        print("VIOLATES:", ent["record"], ent["witnesses"][0]["message"][:300])
    return 1 if rec.viol else 0
