"""C18 - type-customisation hooks apply uniformly at every depth.

C03's documents are loaded with recording substitutes (real class, quantity
class, module/group/object container classes) in every subset; a recursive
walk of the result checks where each substitute appears, that the text of each
real reaches the real class unaltered, and that mapping the substitutes back
gives exactly the plain load."""
import decimal
import random

from .. import common
from .. import gen_text as gt
from ..normalise import snapshot

CHECK = "C18"
RULE = (
    "C03's generated documents (reals, integers, quantities and blocks at "
    "every depth: top level, sequence/set elements, nested sequences, "
    "quantity magnitudes, nested blocks) x 5 (parser, decoder) pairings x "
    "random subsets of {real_cls (recording class or decimal.Decimal), "
    "quantity_cls, module_class, group_class, object_class}, handed over "
    "through every loader entry point (str, bytes, streams, path, file: URL; "
    "with and without image data behind END); a third of the cases build the "
    "plain and the customised parser around one grammar object, in either "
    "order. distinct = "
    "(pairing, seed, subset); non-trivial = at least one substitute is on"
)
PAIRINGS = ("PVL", "ODL", "PDS3", "ISIS", "default",
            # a grammar and a decoder of different dialects given together
            "PVLGrammar+OmniDecoder", "PDSGrammar+ODLDecoder",
            "ISISGrammar+plain-OmniDecoder")
# which dialect the documents are written in
READER_OF = {"PVLGrammar+OmniDecoder": "PVL", "PDSGrammar+ODLDecoder": "PDS3",
             "ISISGrammar+plain-OmniDecoder": "ISIS"}


def nshards(tier):
    return 16


class RecReal:
    """Recording real class: validates like float, keeps the text."""
    __slots__ = ("text",)

    def __init__(self, text):
        if not isinstance(text, str):
            raise TypeError(f"real_cls was handed a {type(text).__name__}")
        float(text)  # ValueError for non-numbers, as float would
        self.text = text

    def __eq__(self, other):
        return isinstance(other, RecReal) and other.text == self.text

    def __hash__(self):
        return hash(("RecReal", self.text))

    def __repr__(self):
        return f"RecReal({self.text!r})"


class RecQ:
    __slots__ = ("value", "units")

    def __init__(self, value, units):
        self.value, self.units = value, units

    def __eq__(self, other):
        return isinstance(other, RecQ) and (other.value, other.units) == \
            (self.value, self.units)

    def __hash__(self):
        return hash(("RecQ", self.value, self.units))

    def __repr__(self):
        return f"RecQ({self.value!r}, {self.units!r})"


PICKY_UNITS = ("deg", "m / s", "KM/(S**2)")


class RecQPicky(RecQ):
    """A quantity class that refuses some units, as a caller's class may.
    The load may then fail; it may not come back with the bare value."""
    __slots__ = ()

    def __init__(self, value, units):
        if str(units).strip() in PICKY_UNITS:
            raise ValueError(f"this quantity class does not take {units!r}")
        RecQ.__init__(self, value, units)


def make_classes(pvl):
    col = pvl.collections

    class SubModule(col.PVLModule):
        pass

    class SubGroup(col.PVLGroup):
        pass

    class SubObject(col.PVLObject):
        pass

    return SubModule, SubGroup, SubObject


class _Shared:
    """Grammar objects handed to several parsers (a caller may well build one
    grammar and configure several parsers with it)."""

    def __init__(self, pvl):
        self.G = pvl.grammar
        self.cache = {}

    def __getattr__(self, name):
        if name not in self.cache:
            self.cache[name] = getattr(self.G, name)()
        return lambda: self.cache[name]


def build_parser(pvl, pairing, subs, classes, shared=None):
    P, G, D = pvl.parser, pvl.grammar, pvl.decoder
    if shared is not None:
        G = shared
    SubModule, SubGroup, SubObject = classes
    dk = {}
    if "real" in subs:
        dk["real_cls"] = subs["real"]
    if "quantity" in subs:
        dk["quantity_cls"] = RecQPicky if subs["quantity"] == "picky" else RecQ
    pk = {}
    if "module" in subs:
        pk["module_class"] = SubModule
    if "group" in subs:
        pk["group_class"] = SubGroup
    if "object" in subs:
        pk["object_class"] = SubObject
    if pairing == "PVL":
        g = G.PVLGrammar()
        return P.PVLParser(grammar=g, decoder=D.PVLDecoder(grammar=g, **dk), **pk)
    if pairing == "ODL":
        g = G.ODLGrammar()
        return P.ODLParser(grammar=g, decoder=D.ODLDecoder(grammar=g, **dk), **pk)
    if pairing == "PDS3":
        dk.pop("real_cls", None)   # PDSLabelDecoder has no real_cls parameter
        g = G.PDSGrammar()
        return P.ODLParser(grammar=g, decoder=D.PDSLabelDecoder(grammar=g, **dk), **pk)
    if pairing == "ISIS":
        g = G.ISISGrammar()
        return P.OmniParser(grammar=g, decoder=D.OmniDecoder(grammar=g, **dk), **pk)
    if pairing == "PDSGrammar+ODLDecoder":
        return P.ODLParser(grammar=G.PDSGrammar(), decoder=D.ODLDecoder(**dk), **pk)
    if pairing == "ISISGrammar+plain-OmniDecoder":
        return P.OmniParser(grammar=G.ISISGrammar(), decoder=D.OmniDecoder(**dk), **pk)
    return None  # default: through pvl.loads keyword arguments


def via_route(pvl, route, text, kw):
    """Hand *text* to the loaders through one of their entry points."""
    import io
    import os
    import tempfile
    if route == "loads(str)":
        return pvl.loads(text, **kw)
    data = text.encode("utf-8")
    if route == "loads(bytes)":
        return pvl.loads(data, **kw)
    if route == "load(text stream)":
        return pvl.load(io.StringIO(text), **kw)
    if route == "load(binary stream)":
        return pvl.load(io.BytesIO(data), **kw)
    # attached-label product: image data behind the END statement
    tail = b" \nEND\n\xff\xfe\x00\x81 = ( \xc3"   # (a blank first: the text may end in a dash)
    if route == "loads(bytes+data)":
        return pvl.loads(data + tail, **kw)
    if route == "load(binary stream+data)":
        return pvl.load(io.BytesIO(data + tail), **kw)
    fd, path = tempfile.mkstemp(prefix="pvl-c18-", dir="/dev/shm")
    try:
        with os.fdopen(fd, "wb") as f:
            f.write(data + (tail if route.endswith("+data)") else b""))
        if route.startswith("load(path"):
            return pvl.load(path, **kw)
        return pvl.loadu("file://" + path, **kw)
    finally:
        os.unlink(path)


ROUTES = ("loads(str)", "loads(str)", "loads(bytes)", "load(text stream)",
          "load(binary stream)", "loads(bytes+data)", "load(binary stream+data)",
          "load(path)", "load(path+data)", "loadu(file:)", "loadu(file:+data)")


def load_with(pvl, pairing, text, subs, classes, shared=None, route="loads(str)"):
    if pairing in ("default", "PVLGrammar+OmniDecoder"):
        D = pvl.decoder
        dk = {}
        if "real" in subs:
            dk["real_cls"] = subs["real"]
        if "quantity" in subs:
            dk["quantity_cls"] = RecQPicky if subs["quantity"] == "picky" else RecQ
        kw = {}
        if dk or pairing != "default":
            kw["decoder"] = D.OmniDecoder(**dk)
        if pairing != "default":
            kw["grammar"] = (shared or pvl.grammar).PVLGrammar()
        elif shared is not None:
            kw["grammar"] = shared.OmniGrammar()
        SubModule, SubGroup, SubObject = classes
        if "module" in subs:
            kw["module_class"] = SubModule
        if "group" in subs:
            kw["group_class"] = SubGroup
        if "object" in subs:
            kw["object_class"] = SubObject
        return via_route(pvl, route, text, kw)
    return via_route(pvl, route, text,
                     {"parser": build_parser(pvl, pairing, subs, classes, shared)})


def walk(rec, pvl, node, subs, classes, pairing, problems, depth, where, seen):
    col = pvl.collections
    SubModule, SubGroup, SubObject = classes
    real = subs.get("real") if pairing != "PDS3" else None
    if isinstance(node, dict):
        base = ("module" if isinstance(node, col.PVLModule) else
                "group" if isinstance(node, col.PVLGroup) else
                "object" if isinstance(node, col.PVLObject) else "?")
        want = {"module": SubModule, "group": SubGroup, "object": SubObject}.get(base)
        rec.count(f"seen[container:{base}][depth{min(depth, 3)}]")
        if base in subs:
            if type(node) is not want:
                problems.append((f"container-not-substitute:{base}", where))
        else:
            if type(node) in (SubModule, SubGroup, SubObject):
                problems.append((f"substitute-used-although-off:{base}", where))
        out = (col.PVLModule if base == "module" else col.PVLGroup
               if base == "group" else col.PVLObject)()
        for k, v in list(node):
            out.append(k, walk(rec, pvl, v, subs, classes, pairing, problems,
                               depth + 1, "block", seen))
        return out
    if isinstance(node, RecQ) or type(node).__name__ == "Quantity":
        rec.count(f"seen[quantity][{where}]")
        if "quantity" in subs and not isinstance(node, RecQ):
            problems.append(("quantity-not-substitute", where))
        if "quantity" not in subs and isinstance(node, RecQ):
            problems.append(("substitute-used-although-off:quantity", where))
        v = walk(rec, pvl, node.value, subs, classes, pairing, problems, depth,
                 "quantity-magnitude", seen)
        return col.Quantity(v, node.units)
    if isinstance(node, list):
        return [walk(rec, pvl, x, subs, classes, pairing, problems, depth,
                     "sequence", seen) for x in node]
    if isinstance(node, (set, frozenset)):
        return type(node)(walk(rec, pvl, x, subs, classes, pairing, problems,
                               depth, "set", seen) for x in node)
    if isinstance(node, RecReal):
        rec.count(f"seen[real][{where}]")
        seen["reals"].append(node.text)
        return float(node.text)
    if isinstance(node, decimal.Decimal):
        rec.count(f"seen[real][{where}]")
        seen["decimals"].append(str(node))
        return float(node)
    if isinstance(node, float):
        rec.count(f"seen[float][{where}]")
        if real is not None:
            problems.append(("real-not-substitute", where))
        return node
    if isinstance(node, bool) or node is None:
        return node
    if isinstance(node, int):
        rec.count(f"seen[int][{where}]")
        if type(node) is not int:
            problems.append(("integer-not-int", where))
        return node
    return node


def snap18(x):
    """snapshot, except that numbers inside sets are compared by value"""
    if isinstance(x, dict):
        return (type(x).__name__, tuple((k, snap18(v)) for k, v in list(x)))
    if isinstance(x, list):
        return ("list", tuple(snap18(v) for v in x))
    if isinstance(x, (set, frozenset)):
        def in_set(v):
            # numbers that compare equal (False, 0, 0.0, -0.0, Decimal(0)) are
            # ONE member of a Python set - also as the magnitude of a quantity
            if isinstance(v, (int, float)):
                return ("num", float(v) + 0.0)
            if type(v).__name__ == "Quantity":
                return ("Quantity", in_set(v.value), v.units)
            return repr(snap18(v))
        return ("set", tuple(sorted({repr(in_set(v)) for v in x})))
    if type(x).__name__ == "Quantity":
        return ("Quantity", snap18(x.value), x.units)
    return snapshot(x)


def case(rec, pvl, pairing, key, classes):
    rng = random.Random(key)
    while True:
        doc = gt.gen_document(rng, READER_OF.get(pairing, pairing), max_top=5)
        if not any(c == "seq-inside-set" for c, _ in doc.meta):
            break
    text = gt.render(doc.tokens, gt.gen_layout(rng, doc.tokens,
                                               READER_OF.get(pairing, pairing), "wild"))
    names = ["real", "quantity", "module", "group", "object"]
    r = rng.random()
    if r < 0.25:
        on = names
    elif r < 0.3:
        on = []
    else:
        on = [n for n in names if rng.random() < 0.5]
    subs = {n: True for n in on}
    if "real" in subs:
        subs["real"] = rng.choice((RecReal, decimal.Decimal))
    picky_hit = False
    if "quantity" in subs and rng.random() < 0.3:
        subs["quantity"] = "picky"
        picky_hit = any(t.kind == gt.UNITS and t.text.strip("<> \t\n\r\f\v") in PICKY_UNITS
                        for t in doc.tokens)
    wit = {"pairing": pairing, "seed": key, "text": text[:1200],
           "substitutes": sorted(subs)}
    rec.case((pairing, key, tuple(sorted(subs))), bool(subs),
             sample=wit if rec.c["evaluations"] % 1301 == 0 else None)
    # how the text reaches the loader, whether the plain and the customised
    # parser are built around ONE grammar object, and which of the two runs
    # first, vary from case to case
    route = rng.choice(ROUTES)
    shared = _Shared(pvl) if rng.random() < 0.35 else None
    subs_first = shared is not None and rng.random() < 0.5
    wit.update({"route": route, "one_grammar_object_for_both_parsers": shared is not None,
                "customised_load_first": subs_first})
    rec.count(f"route[{route}]")
    if shared is not None:
        rec.count("cases_sharing_one_grammar_object")
    pre = None
    if subs_first:
        try:
            with common.cpu_limit(60):
                pre = ("ok", load_with(pvl, pairing, text, subs, classes, shared, route))
        except common.CaseTimeout:
            rec.inconc("CPU budget exceeded " + key)
            return
        except Exception as e:
            pre = ("exc", e)
    try:
        with common.cpu_limit(60):
            # (through the same entry point: a file opened in text mode
            # translates line ends, also inside quoted strings)
            plain = load_with(pvl, pairing, text, {}, classes, shared, route)
    except Exception:
        rec.count("plain_load_failed_not_judged")
        return
    if picky_hit:
        # ... provided the text really has that quantity when it comes in by
        # this route (a word ending in a dash in front of a line break is a
        # continuation for the loaders whatever grammar they are given, and the
        # rest of the text then reads differently): the plain load shows it
        def has_picky(x):
            if isinstance(x, dict):
                return any(has_picky(v) for _, v in list(x))
            if isinstance(x, (list, set, frozenset)):
                return any(has_picky(v) for v in x)
            if type(x).__name__ == "Quantity":
                return str(x.units).strip() in PICKY_UNITS or has_picky(x.value)
            return False
        if not has_picky(plain):
            rec.count("picky_units_not_read_as_a_quantity_by_this_route_not_judged")
            return
    try:
        if pre is not None:
            if pre[0] == "exc":
                raise pre[1]
            got = pre[1]
        else:
            with common.cpu_limit(60):
                got = load_with(pvl, pairing, text, subs, classes, shared, route)
    except common.CaseTimeout:
        rec.inconc("CPU budget exceeded " + key)
        return
    except Exception as e:
        if picky_hit:
            # the caller's quantity class refused a units expression that is
            # in the text: failing is the honest outcome
            rec.count("refusal_by_the_quantity_class_propagated")
            return
        rec.violation(CHECK, pairing, "load-fails-only-with-substitutes",
                      {"exc": type(e).__name__,
                       "real": getattr(subs.get("real"), "__name__", None),
                       "quantity": "quantity" in subs, "route": route}, wit,
                      f"{type(e).__name__}: {e}"[:300])
        return
    if picky_hit:
        rec.violation(CHECK, pairing, "quantity-class-refused-yet-load-returned",
                      {"route": route}, wit,
                      "the substitute quantity class raised ValueError for units "
                      "that are in the text, and the load returned a module")
        return
    rec.count(f"loads_with_substitutes[{pairing}]")
    # the plain load must not show any substitute (it may have run second,
    # around the same grammar object)
    p_problems = []
    walk(common.Rec(), pvl, plain, {}, classes, pairing, p_problems, 0, "top",
         {"reals": [], "decimals": []})
    for kind, where in p_problems[:2]:
        rec.violation(CHECK, pairing, kind.split(":")[0],
                      {"where": where, "which": kind.split(":")[-1],
                       "in_the_plain_load": True}, wit, f"{kind} at {where}")
    problems, seen = [], {"reals": [], "decimals": []}
    # numbers that compare equal (0, 0.0, Decimal(0)) collapse inside a Python
    # set, and which one survives depends on the classes: not judged
    has_set = any(t.kind == gt.LB for t in doc.tokens)
    back = walk(rec, pvl, got, subs, classes, pairing, problems, 0, "top", seen)
    for kind, where in problems[:3]:
        rec.violation(CHECK, pairing, kind.split(":")[0],
                      {"where": where, "which": kind.split(":")[-1],
                       "route": route if route != "loads(str)" else "loads(str)"},
                      wit, f"{kind} at {where}")
    # text of each real handed over unaltered
    if subs.get("real") is RecReal and pairing != "PDS3":
        lits = [t.text for t in doc.tokens if t.kind == gt.VAL and
                (t.cls or "").startswith("real")]
        rec.count("real_text_checks")
        # without sets the walk visits the reals in textual order: the texts
        # must be the written ones, one for one
        if not (set(seen["reals"]) <= set(lits) and
                (has_set or seen["reals"] == lits)):
            rec.violation(CHECK, pairing, "real-text-altered-or-missing",
                          {}, wit, f"real_cls saw {sorted(set(seen['reals']))}, "
                                   f"the text has {sorted(set(lits))}")
    if subs.get("real") is decimal.Decimal and pairing != "PDS3":
        lits = [t.text for t in doc.tokens if t.kind == gt.VAL and
                (t.cls or "").startswith("real")]
        want = {str(decimal.Decimal(x)) for x in lits}
        rec.count("decimal_digit_checks")
        # (equal Decimals written differently collapse inside a set)
        ok = set(seen["decimals"]) <= want and (
            has_set or seen["decimals"] == [str(decimal.Decimal(x)) for x in lits])
        if not ok:
            rec.violation(CHECK, pairing, "decimal-digits-lost", {}, wit,
                          f"{sorted(set(seen['decimals']))} vs {sorted(want)}")
    if not problems and snap18(back) != snap18(plain):
        rec.violation(CHECK, pairing, "substitutes-change-something-else", {},
                      wit, f"{snapshot(back)!r:.300} vs {snapshot(plain)!r:.300}")


TWIN_FAMILIES = (("1.5", "1.50", "1.500", "15e-1", "0.15E1", "1.5e0"),
                 ("0.0", "-0.0", "0.00", "0e0", "-0.00"),
                 ("2.0", "2.00", "2.0e0", "20.0e-1", "2.000"))


def twin_case(rec, pvl, pairing, key, classes):
    """Numerically equal reals written differently, with identical units, at
    every depth of one label: each must reach the real class with its own
    text (nothing may hand back an earlier, equal value)."""
    rng = random.Random(key)
    lits = []

    def q():
        fam = rng.choice(TWIN_FAMILIES)
        t = rng.choice(fam)
        lits.append(t)
        return t

    u = rng.choice(("s", "deg", "m"))
    lines = [f"T1 = {q()} <{u}>", f"T2 = {q()} <{u}>", f"T3 = {q()}",
             f"T4 = ({q()} <{u}>, {q()} <{u}>, {q()}, {q()} <{u}>)",
             "GROUP = G", f"  T5 = {q()} <{u}>", f"  T6 = ({q()}, ({q()}, {q()}))",
             "  OBJECT = O", f"    T7 = {q()} <{u}>", f"    T8 = {q()} <{u}>",
             "  END_OBJECT", "END_GROUP", f"T9 = {q()} <{u}>", "END"]
    text = "\n".join(lines) + "\n"
    for real in (RecReal, decimal.Decimal):
        for with_q in (False, True):
            subs = {"real": real}
            if with_q:
                subs["quantity"] = True
            wit = {"pairing": pairing, "seed": key, "text": text,
                   "substitutes": sorted(subs), "real": real.__name__}
            rec.case((pairing, key, real.__name__, with_q), True)
            rec.count("equal_twin_cases")
            try:
                got = load_with(pvl, pairing, text, subs, classes)
            except Exception as e:
                rec.violation(CHECK, pairing, "load-fails-only-with-substitutes",
                              {"exc": type(e).__name__, "real": real.__name__,
                               "quantity": with_q}, wit, f"{type(e).__name__}: {e}"[:300])
                continue
            problems, seen = [], {"reals": [], "decimals": []}
            walk(rec, pvl, got, subs, classes, pairing, problems, 0, "top", seen)
            for kind, where in problems[:3]:
                rec.violation(CHECK, pairing, kind.split(":")[0],
                              {"where": where, "which": kind.split(":")[-1]}, wit,
                              f"{kind} at {where}")
            if real is RecReal and seen["reals"] != lits:
                rec.violation(CHECK, pairing, "real-text-altered-or-missing",
                              {"equal_twins": True}, wit,
                              f"real_cls saw {seen['reals']}, the text has {lits}")
            if real is decimal.Decimal and \
                    seen["decimals"] != [str(decimal.Decimal(x)) for x in lits]:
                rec.violation(CHECK, pairing, "decimal-digits-lost",
                              {"equal_twins": True}, wit,
                              f"{seen['decimals']} vs {lits}")
    # a reused parser/decoder must not remember values either: second text
    # through the same decoder (C16 covers results in general; here the digits)


ROLE_LABELS = (
    "a = 1\nOBJECT = outer\n  b = 2.50\n  GROUP = inner\n    c = (1, 2.0)\n"
    "  END_GROUP = inner\n  BEGIN_GROUP = second\n  END_GROUP\nEND_OBJECT = outer\n"
    "GROUP = top\n  d = 4 <m>\nEND_GROUP\nEND\n",
    "GROUP = g\n  x = 1\nEND_GROUP\nEND\n",
    "OBJECT = o\n  x = 1\nEND_OBJECT\nEND\n",
    "OBJECT = o\n  OBJECT = o\n    GROUP = o\n      x = 1.5\n    END_GROUP\n"
    "  END_OBJECT\nEND_OBJECT\nGROUP = o\nEND_GROUP\nEND\n",
    "BEGIN_OBJECT = o\n  y = 2\nEND_OBJECT = o\nBEGIN_GROUP = g\n  z = 3\nEND_GROUP = g\nEND\n",
)
ROLE_SETS = (("group", "object"), ("module", "group", "object"),
             ("module", "group"), ("module", "object"))


def one_class_for_several_roles(rec, pvl):
    """The caller hands ONE class over for several container roles (a
    combination of substitutes like any other): every block of those roles is
    an instance of it, the others keep the default class, same content."""
    col = pvl.collections

    class Box(col.OrderedMultiDict):
        pass

    class BoxObject(col.PVLObject):
        pass

    for pairing in PAIRINGS:
        for text in ROLE_LABELS:
            if pairing in ("ISIS", "ISISGrammar+plain-OmniDecoder"):
                text = text.replace("BEGIN_", "")
            for roles in ROLE_SETS:
                for cls in (Box, BoxObject):
                    classes = tuple(cls for _ in range(3))
                    subs = {r: True for r in roles}
                    wit = {"pairing": pairing, "text": text, "one_class": cls.__name__,
                           "roles": list(roles)}
                    rec.case((pairing, "roles", text, roles, cls.__name__), True)
                    rec.count("one_class_for_several_roles")
                    try:
                        plain = load_with(pvl, pairing, text, {}, classes)
                    except Exception:
                        rec.count("plain_load_failed_not_judged")
                        continue
                    try:
                        got = load_with(pvl, pairing, text, subs, classes)
                    except Exception as e:
                        rec.violation(CHECK, pairing, "load-fails-only-with-substitutes",
                                      {"exc": type(e).__name__, "one_class_for": list(roles)},
                                      wit, f"{type(e).__name__}: {e}"[:300])
                        continue
                    bad = []

                    def both(a, b, where):
                        role = ("module" if isinstance(a, col.PVLModule) else
                                "group" if isinstance(a, col.PVLGroup) else "object")
                        want = cls if role in roles else type(a)
                        if type(b) is not want:
                            bad.append(f"{where}: {role} block is {type(b).__name__}, "
                                       f"expected {want.__name__}")
                        ia, ib = list(a.items()), list(b.items())
                        if [k for k, _ in ia] != [k for k, _ in ib]:
                            bad.append(f"{where}: names {[k for k, _ in ib]}")
                            return
                        for (k, va), (_, vb) in zip(ia, ib):
                            if isinstance(va, col.OrderedMultiDict):
                                if not isinstance(vb, col.OrderedMultiDict):
                                    bad.append(f"{where}/{k}: not a block")
                                else:
                                    both(va, vb, f"{where}/{k}")
                            elif repr(va) != repr(vb):
                                bad.append(f"{where}/{k}: {vb!r} != {va!r}")

                    both(plain, got, "$")
                    if bad:
                        rec.violation(CHECK, pairing, "container-not-substitute",
                                      {"one_class_for": list(roles)}, wit, "; ".join(bad)[:300])


def refusal_after_missing_value(rec, pvl):
    """A quantity class that refuses the units of the statement behind a
    parameter without a value (the permissive parsers repair that): the load
    may fail, it may not come back without the statement."""
    D = pvl.decoder
    for pairing in ("default", "ISIS"):
        for u in PICKY_UNITS:
            for text in (f"a =\nb = 5 <{u}>\nc = 3\nEND\n",
                         f"x = 1\na =\nb = (1, 2 <{u}>)\nc = 3\n",
                         f"a = \nb = 5 <{u}>",
                         f"GROUP = g\n a =\n b = 5 <{u}>\nEND_GROUP\nc = 3\nEND\n",
                         f"a =\nb = 1.5 <{u}>\nc =\nd = 2 <{u}>\nEND\n"):
                rec.count("refusing_quantity_class_after_a_missing_value")
                rec.case((pairing, "refusal-after-missing", u, text), True)
                g = pvl.grammar.ISISGrammar() if pairing == "ISIS" else pvl.grammar.OmniGrammar()
                try:
                    m = pvl.loads(text, grammar=g,
                                  decoder=D.OmniDecoder(grammar=g, quantity_cls=RecQPicky))
                except Exception:
                    rec.count("refusal_by_the_quantity_class_propagated")
                    continue
                rec.violation(CHECK, pairing, "quantity-class-refused-yet-load-returned",
                              {"route": "loads(str)", "after_a_missing_value": True},
                              {"pairing": pairing, "text": text},
                              f"the load returned {[k for k, _ in list(m)]}")


def shard(i, n, tier, seed, rec, hb):
    pvl = common.import_pvl()
    classes = make_classes(pvl)
    if i == 1 % n:
        one_class_for_several_roles(rec, pvl)
        refusal_after_missing_value(rec, pvl)
    for pairing in PAIRINGS:
        if pairing == "PDS3":
            continue        # PDSLabelDecoder takes no real_cls
        for j in range(i, 160 if tier == "quick" else 4000, n):
            twin_case(rec, pvl, pairing, f"C18-twin-{seed}-{pairing}-{j}", classes)
    per = 1200 if tier == "quick" else 40000
    for pairing in common.rotated(PAIRINGS, i):
        for j in range(i, per, n):
            hb.beat()
            case(rec, pvl, pairing, f"C18-{seed}-{pairing}-{j}", classes)


def finish_kwargs(rec, tier):
    req = [f"loads_with_substitutes[{p}]" for p in PAIRINGS]
    req += [f"route[{r}]" for r in set(ROUTES)]
    req += ["cases_sharing_one_grammar_object",
            "refusal_by_the_quantity_class_propagated"]
    req += ["real_text_checks", "decimal_digit_checks", "seen[real][block]",
            "seen[real][sequence]", "seen[real][set]",
            "seen[real][quantity-magnitude]", "seen[quantity][sequence]",
            "seen[quantity][block]", "seen[container:group][depth1]",
            "seen[container:object][depth2]", "seen[int][sequence]",
            "one_class_for_several_roles",
            "refusing_quantity_class_after_a_missing_value"]
    return dict(required_counters=req,
                assumptions=["PDSLabelDecoder has no real_cls parameter: that "
                             "configuration is not constructible and is not "
                             "part of the quantifier"])


def replay(data):
    pvl = common.import_pvl()
    rec = common.Rec()
    classes = make_classes(pvl)
    for w in data["witnesses"]:
        w = w["witness"]
        print("---", w["pairing"], w["seed"], w["substitutes"])
        case(rec, pvl, w["pairing"], w["seed"], classes)
    for ent in rec.viol.values():
        print("VIOLATES:", ent["record"], ent["witnesses"][0]["message"][:300])
    return 1 if rec.viol else 0
