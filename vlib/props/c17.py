"""C17 - value classification is total, exclusive and shared by reader and writer.

For every string s and every (grammar, decoder, encoder) triple the harness
computes the class of s by running the documented cascade itself over the
decoder's individual decode_* functions and then requires every public
observer to agree: Token predicates, decode_simple_value's result type, and the
encoder's quoting decision (unquoted output must decode to the identical
string; quoted output must decode to the string, modulo ODL-family folding).
"""
import datetime
import itertools
import random
import re

from .. import common

OWN_HISTORY = True   # after the pristine copy was forked
RULE = (
    "all strings up to the length bound over a 22-character PVL-significant "
    "alphabet (exhaustive), concatenations of borderline atoms, random longer "
    "strings; x 5 (grammar, decoder, encoder) triples, plus 6 encoders built "
    "with a grammar and a decoder of different dialects (writer law only); a "
    "sample re-observed in a pristine process. distinct = distinct "
    "(string, dialect); non-trivial = string is not a plain identifier"
)
ALPHABET = list("aAeE019+-.:#_TZ\"'<=;/ ")
ATOMS = [
    "NULL", "null", "Null", "TRUE", "true", "False", "END", "End", "end",
    "GROUP", "group", "Begin_Object", "END_GROUP", "End_Object", "OBJECT",
    "BEGIN_GROUP", "inf", "nan", "Infinity", "-inf", "NaN", "1_0", "1e5",
    "2001-366", "2000-366", "2001-001", "12:00:60", "23:59:60.5Z", "+", "-",
    "", "16#F#", "2#1#", "-2#1#", "2#-1#", "8#7#", "10#9#", ".5", "1.", "+.5",
    "^a", "a:b", "٣", "é", "2001-01-01", "12:00", "T", "Z", "12:00Z",
    "2001-01-01T12:00:00.5", "2016-366T23:59:60", "2001-001T23:59:60.5Z",
    "2015-06-30T23:59:60", "23:59:60Z", "2001-12-31T23:59:60.123456789", "+05", "-0530", "+05:30", "0x1F", "1E", "E5",
    "a_", "_a", "a b", "/*", "*/", "#", "<m>", "'", '"', "''", '""', "'a'",
    '"a b"', "a-", "-a", "a+b", "a&b", "1.5e-3", "0",
    # fractions of a second beyond what PDS3 has; both sign positions
    "12:00:45.4571", "1:1:1.0001", "01:10:39.457591", "12:00:00.123",
    "2001-001T01:10:39.457591", "16#-FF#", "+16#FF#",
]


def nshards(tier):
    return 16


def triples(pvl):
    G, D, E = pvl.grammar, pvl.decoder, pvl.encoder
    isis_g = G.ISISGrammar()
    omni_g = G.OmniGrammar()
    return {
        "PVL": (G.PVLGrammar(), D.PVLDecoder(), E.PVLEncoder()),
        "ODL": (G.ODLGrammar(), D.ODLDecoder(), E.ODLEncoder()),
        "PDS3": (G.PDSGrammar(), D.PDSLabelDecoder(), E.PDSLabelEncoder()),
        "ISIS": (isis_g, D.OmniDecoder(grammar=isis_g), E.ISISEncoder()),
        "default": (omni_g, D.OmniDecoder(grammar=omni_g), None),
    }


def mixed_writers(pvl):
    """Encoders whose quoting rule (grammar) and decoder are of different
    dialects - legal constructor arguments.  Only the reader/writer law is
    judged for them: what the encoder writes without quotes must decode, with
    the encoder's OWN decoder, to the identical string."""
    G, D, E = pvl.grammar, pvl.decoder, pvl.encoder
    return {
        "PVLEncoder+ODLDecoder": E.PVLEncoder(decoder=D.ODLDecoder()),
        "PVLEncoder+PDSLabelDecoder": E.PVLEncoder(decoder=D.PDSLabelDecoder()),
        "ISISEncoder+ODLDecoder": E.ISISEncoder(decoder=D.ODLDecoder()),
        "PVLEncoder(ISISGrammar)+PVLDecoder": E.PVLEncoder(
            grammar=G.ISISGrammar(), decoder=D.PVLDecoder()),
        "PVLEncoder(OmniGrammar)+PVLDecoder": E.PVLEncoder(
            grammar=G.OmniGrammar(), decoder=D.PVLDecoder()),
        "PVLEncoder+OmniDecoder": E.PVLEncoder(decoder=D.OmniDecoder()),
    }


def check_writer_only(rec, name, enc, s):
    g = enc.grammar
    if not all(g.char_allowed(c) for c in s):
        return
    st, out = attempt(enc.encode_string, s)
    rec.count("mixed_writer_checks")
    wit = {"dialect": name, "string": s}
    if st == "raised":
        rec.violation("C17", name, "encode_string-raised-non-ValueError",
                      {"exc": out, "reason": "mixed"}, wit, str(out))
        return
    if st != "ok":
        return
    quoted = out != s
    rec.count("mixed_writer_quoted" if quoted else "mixed_writer_unquoted")
    st2, back = attempt(enc.decoder.decode_simple_value, out)
    folds = hasattr(enc.decoder, "is_identifier")
    want = fold(s) if (quoted and folds) else s
    if not (st2 == "ok" and type(back) is str and back == want):
        rec.violation(
            "C17", name,
            "written-string-does-not-read-back" if quoted else
            "unquoted-output-does-not-decode-to-itself",
            {"decoder": "own", "quoted": quoted, "reason": "mixed",
             "reads_as": type(back).__name__ if st2 == "ok" else st2}, wit,
            f"encode_string({s!r}) = {out!r}; the encoder's own decoder gives "
            f"{st2} {back!r}")


def observe_all(pvl, T, s):
    """Everything public about *s* in every dialect, as plain data (compared
    with the same observation made in a pristine process)."""
    out = {}
    for dialect, (g, d, enc) in T.items():
        cls, parts = classify(s, g, d)
        t = pvl.token.Token(s, grammar=g, decoder=d)
        preds = []
        for p in ("is_quoted_string", "is_numeric", "is_datetime",
                  "is_unquoted_string", "is_parameter_name", "is_simple_value"):
            try:
                preds.append(bool(getattr(t, p)()))
            except Exception as e:
                preds.append(type(e).__name__)
        st, val = attempt(d.decode_simple_value, s)
        w = attempt(enc.encode_string, s) if enc is not None else None
        out[dialect] = (cls, tuple(preds), st, type(val).__name__, repr(val), w)
    return out


ODL_FAMILY_DECODERS = ("ODL", "PDS3", "ISIS", "default")
IDENT = re.compile(r"[A-Za-z](?:[A-Za-z0-9_]*[A-Za-z0-9])?\Z")


def fold(s, ws=" \t\n\r\v\f"):
    s = re.sub(r"-[\n\r\v\f][ \t\n\r\v\f]*", "", s)
    return re.sub(r"[ \t\n\r\v\f]+", " ", s.strip(ws))


def attempt(f, s):
    try:
        return ("ok", f(s))
    except ValueError:
        return ("no", None)
    except Exception as e:  # anything else escaping is itself a finding
        return ("raised", type(e).__name__)


def input_reason(s, g, dialect):
    """Pure feature extractor: why might observers disagree on *s*?"""
    cf = s.casefold()
    if cf in (g.none_keyword.casefold(), g.true_keyword.casefold(),
              g.false_keyword.casefold()):
        return "null-bool-keyword"
    if cf in {k.casefold() for k in g.reserved_keywords}:
        return ("reserved-keyword" if s in g.reserved_keywords
                else "reserved-keyword-other-case")
    if dialect in ("ODL", "PDS3") and not IDENT.match(s):
        return "odl-non-identifier"
    if cf.lstrip("+-") in ("inf", "infinity", "nan"):
        return "float-word"
    if re.fullmatch(r"[+-]?[0-9_.]*[0-9][0-9_.]*([eE][+-]?[0-9_]+)?", s) and "_" in s:
        return "digits-with-underscore"
    if s == "":
        return "empty"
    if any(ord(c) > 127 for c in s):
        return "non-ascii"
    if re.search(r"[0-9Z][+-][0-9]{1,4}(:[0-9]{2})?\Z", s):
        return "ends-like-zone-offset"
    return "other"


_BASED = re.compile(r"([+-]?)([0-9]+)#([+-]?)([0-9A-Za-z]+)#\Z")
# where the dialect's notation puts the sign, and which radixes it has
# (PVL: [sign]radix#digits#, binary / octal / hexadecimal; ODL: radix#[sign]
# digits#, radix 2 ... 16; the permissive grammar takes either position)
BASED_RULES = {"PVL": ("front", (2, 8, 16)), "ISIS": ("front", (2, 8, 16)),
               "ODL": ("inside", tuple(range(2, 17))),
               "PDS3": ("inside", tuple(range(2, 17))),
               "default": ("either", tuple(range(2, 17)))}


def based_read(s, dialect):
    """Independent reader of the based-integer notation: ("based", value) for
    text in the dialect's notation, ("no", why) for text of that general form
    which the notation excludes, None for anything else."""
    m = _BASED.match(s)
    if not m or not s.isascii():
        return None
    front, radix, inside, digits = m.groups()
    where, radixes = BASED_RULES[dialect]
    if front and inside:
        return ("no", "two signs")
    if (front and where == "inside") or (inside and where == "front"):
        return ("no", "sign position")
    if radix.startswith("0") or int(radix) not in radixes:
        return ("no", "radix")
    r = int(radix)
    val = 0
    for c in digits:
        v = "0123456789abcdef".find(c.lower())
        if v < 0 or v >= r:
            return ("no", "digit not of the radix")
        val = val * r + v
    return ("based", -val if "-" in (front, inside) else val)


def classify(s, g, d):
    cf = s.casefold()
    parts = {
        "quoted": attempt(d.decode_quoted_string, s),
        "based": attempt(d.decode_non_decimal, s),
        "decimal": attempt(d.decode_decimal, s),
        "datetime": attempt(d.decode_datetime, s),
        "unquoted": attempt(d.decode_unquoted_string, s),
    }
    if cf in (g.none_keyword.casefold(), g.true_keyword.casefold(),
              g.false_keyword.casefold()):
        cls = "keyword"
    else:
        for name in ("quoted", "based", "decimal", "datetime", "unquoted"):
            if parts[name][0] == "ok":
                cls = name
                break
        else:
            cls = "not-a-value"
    return cls, parts


def check_string(rec, pvl, dialect, g, d, enc, s, parsers=None):
    Token = pvl.token.Token
    cls, parts = classify(s, g, d)
    reason = input_reason(s, g, dialect)
    wit = {"dialect": dialect, "string": s, "class": cls}
    rec.count(f"class[{cls}]")

    def bad(kind, feats, msg):
        feats = dict(feats)
        feats["reason"] = reason
        rec.violation("C17", dialect, kind, feats, wit, msg)

    for name, (st, val) in parts.items():
        if st == "raised":
            bad("decoder-function-raised-non-ValueError",
                {"function": "decode_" + name, "exc": val}, f"{name}: {val}")
    # exclusivity of the four non-string decoders
    accepted = [n for n in ("quoted", "based", "decimal", "datetime")
                if parts[n][0] == "ok"]
    if cls == "keyword":
        accepted = ["keyword"] + accepted
    rec.count("exclusivity_checks")
    if len(accepted) > 1:
        bad("classes-not-exclusive", {"classes": "+".join(accepted)},
            f"{s!r} accepted as {accepted}")
    # decode_simple_value
    st, val = attempt(d.decode_simple_value, s)
    rec.count("decode_simple_value_checks")
    if st == "raised":
        bad("decode_simple_value-raised-non-ValueError", {"exc": val}, val)
    elif cls == "not-a-value":
        if st != "no":
            bad("decode_simple_value-accepts-non-value",
                {"type": type(val).__name__}, f"{s!r} -> {val!r}")
    else:
        ok = st == "ok" and (
            (cls == "keyword" and (val is None or isinstance(val, bool)))
            or (cls == "quoted" and type(val) is str)
            or (cls == "based" and type(val) is int)
            or (cls == "decimal" and type(val) in (int, float))
            or (cls == "datetime" and (
                isinstance(val, (datetime.date, datetime.time))
                or (type(val) is str and val == s
                    and g.leap_second_Ymd_re is not None)))
            or (cls == "unquoted" and type(val) is str and val == s)
        )
        if not ok:
            bad("decode_simple_value-type-does-not-fit-class",
                {"class": cls, "type": type(val).__name__ if st == "ok" else st},
                f"{s!r} class {cls} -> {st} {val!r}")
    # the date/time class against the independent reader of the date and time
    # notations (vlib/datespec.py): what that reader takes for a date, a time,
    # a date-time or a leap-second text of this dialect is of class date/time
    from .. import datespec
    if dialect in datespec.DIALECTS and s.isascii():
        spec = datespec.read(s, dialect)
        if spec[0] in ("date", "time", "datetime", "leap"):
            rec.count("date_time_class_checked_against_the_notation_reader")
            if cls != "datetime":
                bad("class-differs-from-the-date-time-notation",
                    {"class": cls, "notation": spec[0]},
                    f"{s!r} is a {spec[0]} in the {dialect} notation, classified {cls}")
        elif spec[0] == "rejected":
            # text of the date/time form that this dialect excludes (PDS3: a
            # zone offset, more than milliseconds; seconds = 60 where the
            # dialect does not keep such text): not of the date/time class
            rec.count("date_time_class_checked_against_the_notation_reader")
            if cls == "datetime":
                bad("class-differs-from-the-date-time-notation",
                    {"class": cls, "notation": "excluded: " + spec[1]},
                    f"{s!r} is excluded from the {dialect} notation ({spec[1]}), "
                    f"classified {cls}")
    # the based-integer class against an independent reader of that notation
    br = based_read(s, dialect)
    if br is not None:
        rec.count("based_class_checked_against_the_notation_reader")
        if (br[0] == "based") != (cls == "based"):
            bad("class-differs-from-the-based-integer-notation",
                {"class": cls, "notation": br[0] if br[0] == "based" else br[1]},
                f"{s!r}: notation reader says {br}, classified {cls}")
        elif br[0] == "based" and parts["based"][1] != br[1]:
            bad("based-integer-value-differs-from-the-notation",
                {"notation": "based"},
                f"{s!r}: {parts['based'][1]!r}, the notation gives {br[1]!r}")
    elif cls == "based":
        bad("class-differs-from-the-based-integer-notation",
            {"class": cls, "notation": "not-of-the-form"}, f"{s!r} classified based")
    # token predicates
    t = Token(s, grammar=g, decoder=d)
    preds = {}
    for p in ("is_quoted_string", "is_numeric", "is_decimal", "is_non_decimal",
              "is_datetime", "is_unquoted_string", "is_parameter_name",
              "is_simple_value", "is_string"):
        try:
            preds[p] = bool(getattr(t, p)())
        except Exception as e:
            preds[p] = None
            bad("predicate-raised", {"predicate": p, "exc": type(e).__name__},
                repr(e))
    # the decoder-only argument form: the token takes the decoder's grammar
    # (documented), so it must answer like the fully specified token
    try:
        t2 = Token(s, decoder=d)
        for p, v in preds.items():
            if v is None:
                continue
            v2 = bool(getattr(t2, p)())
            rec.count("decoder_only_token_checks")
            if v2 != v:
                bad("token-argument-forms-disagree",
                    {"predicate": p, "full_form_says": v},
                    f"Token({s!r}, decoder=d).{p}() = {v2}, "
                    f"Token({s!r}, grammar=g, decoder=d).{p}() = {v}")
                break
    except Exception as e:
        bad("predicate-raised", {"predicate": "Token(s, decoder=d)",
                                 "exc": type(e).__name__}, repr(e))
    expect = {
        "is_quoted_string": cls == "quoted",
        "is_numeric": cls in ("based", "decimal"),
        "is_decimal": parts["decimal"][0] == "ok",
        "is_non_decimal": parts["based"][0] == "ok",
        "is_datetime": cls == "datetime",
        "is_unquoted_string": cls == "unquoted",
        "is_simple_value": cls != "not-a-value",
        "is_string": cls in ("quoted", "unquoted"),
    }
    for p, want in expect.items():
        rec.count("predicate_checks")
        if preds[p] is not None and preds[p] != want:
            bad("predicate-disagrees-with-class",
                {"predicate": p, "class": cls, "predicate_says": preds[p]},
                f"Token({s!r}).{p}() = {preds[p]} but class is {cls}")
    # the explicit consequence: numbers and date/times are never names
    if cls in ("based", "decimal", "datetime"):
        rec.count("number_or_time_never_a_name_checks")
        for p in ("is_unquoted_string", "is_parameter_name"):
            if preds[p]:
                bad("number-or-datetime-accepted-as-name",
                    {"predicate": p, "class": cls}, f"{s!r}")
    if cls in ("based", "decimal", "datetime") and \
            re.fullmatch(r"[A-Za-z0-9:+\-.#_]+", s) and parsers is not None:
        # ... also for the parser: neither as a statement's name nor - through
        # the missing-value repair of the permissive parsers - as the name the
        # parser makes up from the value in front of a second '='
        LexerError = pvl.exceptions.LexerError
        ParseError = pvl.exceptions.ParseError
        for form, text in (("name", f"{s} = 1\nEND\n"),
                           ("value-then-equals", f"a = {s} = 3\nEND\n"),
                           ("value-then-equals-in-block",
                            f"GROUP = g\n a = {s} = 3\nEND_GROUP\nEND\n"),
                           # (the same text between quotes is a string value,
                           # but still no name)
                           ("quoted-value-then-equals", f'a = "{s}" = 3\nEND\n'),
                           ("quoted-value-then-equals", f"a = '{s}'\n = 3\nEND\n")):
            rec.count("parser_level_name_checks")
            try:
                with common.cpu_limit(20):
                    m = pvl.loads(text, parser=parsers[dialect]())
            except (LexerError, ParseError):
                continue
            except common.CaseTimeout:
                rec.inconc(f"CPU budget exceeded on {text!r}")
                continue
            except Exception as e:
                bad("parser-raised-undocumented-type",
                    {"form": form, "exc": type(e).__name__}, f"{text!r}: {e!r}")
                continue
            # the text has a number / date / time where only a name can
            # stand: no module can come out of it
            bad("number-or-datetime-accepted-as-name",
                {"predicate": "parser:" + form, "class": cls},
                f"{text!r} loads: {[k for k, _ in list(m)]}")
    if preds["is_parameter_name"] and cls in ("keyword", "quoted"):
        bad("predicate-disagrees-with-class",
            {"predicate": "is_parameter_name", "class": cls,
             "predicate_says": True}, f"{s!r}")
    # writer
    if enc is not None and all(g.char_allowed(c) for c in s):
        decs = {"own": enc.decoder}
        if d is not enc.decoder:
            decs["reader"] = d
        st, out = attempt(enc.encode_string, s)
        rec.count("writer_checks")
        if st == "raised":
            bad("encode_string-raised-non-ValueError", {"exc": out}, out)
        elif st == "ok":
            quoted = out != s
            rec.count("writer_quoted" if quoted else "writer_unquoted")
            for which, dd in decs.items():
                st2, back = attempt(dd.decode_simple_value, out)
                folds = hasattr(dd, "is_identifier")  # ODL-family decoder
                want = fold(s) if (quoted and folds) else s
                if not (st2 == "ok" and type(back) is str and back == want):
                    bad("written-string-does-not-read-back" if quoted else
                        "unquoted-output-does-not-decode-to-itself",
                        {"decoder": which, "quoted": quoted,
                         "reads_as": type(back).__name__ if st2 == "ok" else st2},
                        f"encode_string({s!r}) = {out!r} decodes to "
                        f"{st2} {back!r}")
    return cls


def strings_for(tier, seed, part, nparts):
    maxlen = 3 if tier == "quick" else 4
    n = 0
    for L in range(0, maxlen + 1):
        for tup in itertools.product(ALPHABET, repeat=L):
            n += 1
            if n % nparts == part:
                yield "enum", "".join(tup)
    k = 2 if tier == "quick" else 3
    for r in range(1, k + 1):
        for tup in itertools.product(ATOMS, repeat=r):
            n += 1
            if n % nparts == part:
                yield "atoms", "".join(tup)
    rng = random.Random(f"C17-{seed}-{part}")
    total = (20000 if tier == "quick" else 400000) // nparts
    pool = ALPHABET + list("bcdfxyz2345678") + ["\n", "\t", "*", "(", ")", ",",
                                               "{", "}", "^", "&", "é"]
    for _ in range(total):
        L = rng.randint(4, 12)
        if rng.random() < 0.5:
            s = "".join(rng.choice(pool) for _ in range(L))
        else:  # mutate an atom
            a = list(rng.choice(ATOMS) + rng.choice(ATOMS))
            for _ in range(rng.randint(0, 2)):
                if a:
                    a[rng.randrange(len(a))] = rng.choice(pool)
            s = "".join(a)
        yield "random", s


def shard(i, n, tier, seed, rec, hb):
    pvl = common.import_pvl()
    T = triples(pvl)
    # forked before this worker has classified anything: what a string is must
    # not depend on what any dialect was asked before
    pristine = common.Pristine(lambda s: observe_all(pvl, triples(pvl), s))
    # (the pristine copy exists now; this worker itself may have a past)
    from .. import prelude
    rec.count("workers_with_a_hostile_history"
              if prelude.hostile_history(pvl, i) else "workers_starting_fresh")
    try:
        _shard(i, n, tier, seed, rec, hb, pvl, T, pristine)
    finally:
        pristine.close()


def _shard(i, n, tier, seed, rec, hb, pvl, T, pristine):
    order = list(T.items())
    mixed = mixed_writers(pvl)
    from ..gen_values import strict_parser
    parsers = {d: (lambda d=d: strict_parser(pvl, d)) for d in T}
    for k, (src, s) in enumerate(strings_for(tier, seed, i, n)):
        hb.beat()
        rec.count(f"strings[{src}]")
        for name, enc in mixed.items():
            check_writer_only(rec, name, enc, s)
        # the dialects take turns going first: state shared between the
        # classes of one process must not leak from one dialect to another
        rot = order[k % len(order):] + order[:k % len(order)]
        if k % 2:
            rot.reverse()
        for dialect, (g, d, enc) in rot:
            cls = check_string(rec, pvl, dialect, g, d, enc, s, parsers)
            rec.case((dialect, s), not IDENT.match(s),
                     sample={"dialect": dialect, "string": s, "class": cls}
                     if rec.c["evaluations"] % 5003 == 0 else None)
        if (src == "atoms" and (s in ATOMS or k % 23 == 0)) or k % 211 == 0:
            here = observe_all(pvl, T, s)
            there = pristine.ask(s)
            rec.count("compared_with_a_pristine_process")
            if here != there:
                diff = [d for d in here if here[d] != there.get(d)]
                rec.violation(
                    "C17", diff[0], "classification-depends-on-process-history",
                    {"reason": input_reason(s, T[diff[0]][0], diff[0])},
                    {"string": s, "dialect": diff[0], "here": repr(here[diff[0]]),
                     "pristine": repr(there.get(diff[0]))},
                    f"{s!r} in {diff}: {here[diff[0]]!r} in this process, "
                    f"{there.get(diff[0])!r} in a process that was asked nothing else")


def finish_kwargs(rec, tier):
    return dict(
        extra_cov={"exhaustive": True,
                   "explanation": "exhaustive = the length-bounded enumeration "
                                  "over the 22-character alphabet (length <=3 "
                                  "quick, <=4 thorough); atoms and random "
                                  "strings are samples"},
        required_counters=("predicate_checks", "writer_checks", "writer_quoted",
                           "mixed_writer_unquoted", "mixed_writer_quoted",
                           "compared_with_a_pristine_process",
                           "writer_unquoted", "exclusivity_checks",
                           "number_or_time_never_a_name_checks",
                           "parser_level_name_checks", "decoder_only_token_checks",
                           "date_time_class_checked_against_the_notation_reader",
                           "class[keyword]", "class[quoted]", "class[based]",
                           "based_class_checked_against_the_notation_reader",
                           "class[decimal]", "class[datetime]",
                           "class[unquoted]", "class[not-a-value]"),
        assumptions=["the class of a string is the first acceptor in the "
                     "documented cascade keyword > quoted > based > decimal > "
                     "date/time > unquoted, run by the harness over the "
                     "decoder's individual functions"],
    )


def replay(data):
    pvl = common.import_pvl()
    T = triples(pvl)
    rec = common.Rec()
    for w in data["witnesses"]:
        w = w["witness"]
        if w["dialect"] in T and "here" not in w:
            g, d, enc = T[w["dialect"]]
            check_string(rec, pvl, w["dialect"], g, d, enc, w["string"])
        elif "here" in w:
            pr = common.Pristine(lambda s: observe_all(pvl, triples(pvl), s))
            print("pristine process:", pr.ask(w["string"]).get(w["dialect"]))
            pr.close()
            print("recorded in the worker:", w["here"])
            print("(the difference needs the worker's history: re-run the check)")
        else:
            check_writer_only(rec, w["dialect"], mixed_writers(pvl)[w["dialect"]],
                              w["string"])
    for ent in rec.viol.values():
        print("VIOLATES:", ent["record"], ent["witnesses"][0]["message"][:300])
    return 1 if rec.viol else 0
