"""C14 - date and time values keep their type, instant and time-zone meaning.

Decode side: field tuples rendered in every form the dialect admits; the
expected Python object is built by the specification reader (vlib/datespec.py)
and compared with decoder.decode_datetime(text) and with loads('T = text') in
several syntactic contexts.  Encode side: every temporal value x encoder
configuration either refuses or writes text that the *reference reader* maps
back to the same instant at the same precision."""
import datetime as dt
import random

from .. import common
from .. import datespec
from ..gen_values import gen_temporal, gen_config, make_encoder, strict_parser

CHECK = "C14"
RULE = (
    "decode: every day of years {1,4,100,400,999,1000,1900,2000,2023,2024,9999} "
    "in both date forms; times over all hours/minutes, seconds {none,0,1,58,59,"
    "60}, fractions of 1-6 digits incl. leading zeros, zones {none, Z, +-H, "
    "+-HH, +-HH:MM whole and half hours}; date-times as combinations; x 5 "
    "dialects x {decode_datetime, loads in 5 contexts}. encode: generated "
    "temporal values (naive/UTC/+-whole/half-hour zones; 0, ms<100, ms, sub-ms "
    "microseconds; years < 1000) x 4 encoders x options. distinct = (side, "
    "dialect, text or value); non-trivial = all"
)
YEARS = (1, 4, 100, 400, 999, 1000, 1900, 2000, 2023, 2024, 9999)
FRACS = ("", "5", "05", "50", "123", "001", "1234", "1230", "000001", "123456",
         "500000", "999999", "100000", "12345")
ZONES = ["", "Z"] + [f"{s}{h}" for s in "+-" for h in (0, 1, 5, 9)] + \
    [f"{s}{h:02d}" for s in "+-" for h in (0, 1, 5, 11, 12, 13, 14)] + \
    [f"{s}{h:02d}:{m:02d}" for s in "+-" for h in (0, 3, 5, 9) for m in (0, 30, 45)]
DECODER = {
    "PVL": lambda D, G: D.PVLDecoder(),
    "ODL": lambda D, G: D.ODLDecoder(),
    "PDS3": lambda D, G: D.PDSLabelDecoder(),
    "ISIS": lambda D, G: D.OmniDecoder(grammar=G.ISISGrammar()),
    "default": lambda D, G: D.OmniDecoder(grammar=G.OmniGrammar()),
}
CONTEXTS = [("top", "T = {x}\nEND\n"), ("last-token", "T = {x}"),
            ("in-sequence", "T = ({x}, 1)\n"), ("before-comment", "T = {x} /* c */\nN = 1\n"),
            ("before-delimiter", "T = {x};\n")]


def nshards(tier):
    return 16


def same(a, b):
    if type(a) is not type(b):
        return False
    if isinstance(a, dt.datetime) or isinstance(a, dt.time):
        if (a.tzinfo is None) != (b.tzinfo is None):
            return False
        if a.replace(tzinfo=None) != b.replace(tzinfo=None):
            return False
        return a.tzinfo is None or a.utcoffset() == b.utcoffset()
    return a == b


def literal_stream(tier, rng):
    """Yield (label, text) over the boundary sets; label names the form."""
    step = 7 if tier == "quick" else 1
    n = 0
    for y in YEARS:
        d = dt.date(y, 1, 1)
        while d.year == y:
            n += 1
            if n % step == 0 or d.day in (1, 28, 29, 30, 31):
                yield "date:ymd", datespec.render_date(d, "ymd")
                yield "date:doy", datespec.render_date(d, "doy")
            if d == dt.date(9999, 12, 31):
                break
            d += dt.timedelta(days=1)
    for h in range(24):
        for m in range(60):
            n += 1
            if n % step == 0 or m in (0, 59):
                yield "time:hm", datespec.render_time(h, m, None, "", "")
                yield "time:hmZ", datespec.render_time(h, m, None, "", "Z")
    for h in (0, 1, 12, 23):
        for m in (0, 30, 59):
            for s in (0, 1, 58, 59, 60):
                for f in FRACS:
                    for z in ZONES:
                        n += 1
                        if tier == "quick" and n % 5:
                            continue
                        t = datespec.render_time(h, m, s, f, z)
                        zc = "none" if z == "" else "Z" if z == "Z" else "offset"
                        yield f"time:hms{'f' if f else ''}:{zc}" + \
                            (":leap" if s == 60 else ""), t
    # every (second, millisecond) pair: whole milliseconds are within every
    # dialect's precision, whatever binary fraction they are nearest to
    k = 0
    for sec in range(60):
        for ms in range(1000):
            k += 1
            if tier == "quick" and k % 13:
                continue
            t = datespec.render_time((sec * 7 + ms) % 24, ms % 60, sec, f"{ms:03d}",
                                     ("", "Z")[k % 2])
            if k % 5 == 0:
                yield "datetime:doy:" + ("none", "Z")[k % 2], "2001-034T" + t
            else:
                yield "time:hmsf:" + ("none", "Z")[k % 2], t
    for _ in range(6000 if tier == "quick" else 400000):
        y = rng.choice(YEARS + (rng.randint(1, 9999),))
        d = dt.date(y, 1, 1) + dt.timedelta(days=rng.randint(0, 364))
        form = rng.choice(("ymd", "doy"))
        s = rng.choice((None, 0, rng.randint(0, 59), 59, 60))
        f = rng.choice(FRACS) if s is not None else ""
        if rng.random() < 0.3 and s is not None:
            f = "".join(rng.choice("0123456789") for _ in range(rng.randint(1, 6)))
        z = rng.choice(ZONES)
        t = datespec.render_time(rng.randint(0, 23), rng.randint(0, 59), s, f, z)
        zc = "none" if z == "" else "Z" if z == "Z" else "offset"
        yield f"datetime:{form}:{zc}" + (":leap" if s == 60 else ""), \
            datespec.render_date(d, form) + "T" + t


def decode_side(rec, hb, pvl, tier, seed, part, nparts):
    D, G = pvl.decoder, pvl.grammar
    LexerError, ParseError = pvl.exceptions.LexerError, pvl.exceptions.ParseError
    decs = {d: DECODER[d](D, G) for d in datespec.DIALECTS}
    parsers = {d: strict_parser(pvl, d) for d in datespec.DIALECTS}
    rng = random.Random(f"C14-lit-{seed}")
    for n, (label, text) in enumerate(literal_stream(tier, rng)):
        if n % nparts != part:
            continue
        hb.beat()
        # the dialects take turns being asked about a text first
        for dialect in common.rotated(datespec.DIALECTS, n // nparts + part):
            exp = datespec.read(text, dialect)
            if exp[0] == "not-temporal":
                # no claim about the value, but only ValueError may come out
                rec.count("not_temporal_exception_type_checks")
                try:
                    decs[dialect].decode_datetime(text)
                except ValueError:
                    pass
                except Exception as e:
                    rec.violation(CHECK, dialect, "decode-raises-undocumented-type",
                                  {"form": label, "exc": type(e).__name__},
                                  {"dialect": dialect, "text": text, "form": label},
                                  f"decode_datetime({text!r}) raised {e!r}")
                if n % 3 == 0:
                    try:
                        pvl.loads(f"T = {text}\n", parser=parsers[dialect])
                    except (LexerError, ParseError):
                        pass
                    except Exception as e:
                        rec.violation(CHECK, dialect, "load-raises-undocumented-type",
                                      {"form": label, "exc": type(e).__name__},
                                      {"dialect": dialect, "text": text,
                                       "doc": f"T = {text}\n"},
                                      f"loads('T = {text}') raised {e!r}")
                continue
            wit = {"dialect": dialect, "text": text, "form": label,
                   "spec": repr(exp)}
            rec.case(("dec", dialect, text), True,
                     sample=wit if rec.c["evaluations"] % 3001 == 0 else None)
            rec.count(f"decode[{dialect}][{exp[0]}]")
            rec.count(f"form[{label.split(':')[0]}:{label.split(':')[1]}]")
            feats = {"form": label, "expected": exp[0]}
            try:
                got = ("ok", decs[dialect].decode_datetime(text))
            except ValueError:
                got = ("ValueError", None)
            except Exception as e:
                got = (type(e).__name__, None)
            if exp[0] == "rejected":
                if got[0] != "ValueError":
                    rec.violation(CHECK, dialect, "decode-accepts-what-dialect-rejects",
                                  {**feats, "why": exp[1]}, wit,
                                  f"decode_datetime({text!r}) = {got!r}; spec: {exp[1]}")
            elif exp[0] == "leap":
                if not (got[0] == "ok" and type(got[1]) is str and got[1] == text):
                    rec.violation(CHECK, dialect, "leap-second-not-kept-as-text",
                                  feats, wit, f"decode_datetime({text!r}) = {got!r}")
            else:
                if not (got[0] == "ok" and same(exp[1], got[1])):
                    rec.violation(CHECK, dialect, "decode-differs-from-spec", feats,
                                  wit, f"decode_datetime({text!r}) = {got!r}; "
                                       f"spec {exp[1]!r}")
            # through the loader, in context (a sample of the stream)
            if n % 3:
                continue
            for cname, tmpl in CONTEXTS:
                doc = tmpl.replace("{x}", text)
                rec.count("loads_in_context")
                try:
                    m = pvl.loads(doc, parser=parsers[dialect])
                    v = m["T"]
                    if cname == "in-sequence":
                        v = v[0] if isinstance(v, list) and v else v
                    got = ("ok", v)
                except (LexerError, ParseError):
                    got = ("rejected", None)
                except Exception as e:
                    got = (type(e).__name__, None)
                f2 = {**feats, "context": cname}
                w2 = {**wit, "doc": doc}
                if exp[0] == "rejected":
                    ok = got[0] == "rejected"
                    kind = "load-accepts-what-dialect-rejects"
                elif exp[0] == "leap":
                    ok = got[0] == "ok" and type(got[1]) is str and got[1] == text
                    kind = "load-leap-second-not-text"
                else:
                    ok = got[0] == "ok" and same(exp[1], got[1])
                    kind = "load-differs-from-spec"
                if not ok:
                    rec.violation(CHECK, dialect, kind, f2, w2,
                                  f"loads({doc!r})['T'] -> {got!r}; spec {exp!r}")


def encode_side(rec, hb, pvl, tier, seed, part, nparts):
    total = 16000 if tier == "quick" else 600000
    for j in range(part, total, nparts):
        hb.beat()
        key = f"C14-enc-{seed}-{j}"
        rng = random.Random(key)
        dialect = ("PVL", "ODL", "PDS3", "ISIS")[j % 4]
        leaf = gen_temporal(rng, dialect)
        cfg = gen_config(rng, dialect)
        v = leaf.value
        wit = {"dialect": dialect, "cfg": cfg, "value": repr(v), "class": leaf.cls,
               "seed": key}
        rec.case(("enc", dialect, repr(v), repr(sorted(cfg.items()))), True,
                 sample=wit if j % 2003 == 0 else None)
        parts = leaf.cls.split(":")
        feats = {"kind": parts[0], "zone": parts[1] if len(parts) > 2 else "-",
                 "us": parts[2] if len(parts) > 2 else "-",
                 "year_lt_1000": leaf.cls.endswith("year-lt-1000")}
        try:
            enc = make_encoder(pvl, dialect, cfg)
            text = enc.encode_value(v)
        except (ValueError, TypeError):
            rec.count(f"encode_refused[{dialect}]")
            continue
        except Exception as e:
            rec.violation(CHECK, dialect, "encode-raised-other",
                          {**feats, "exc": type(e).__name__}, wit, repr(e))
            continue
        rec.count(f"encode_text[{dialect}]")
        wit["text"] = text
        got = datespec.read(text, dialect)
        kind = ("datetime" if isinstance(v, dt.datetime) else
                "date" if isinstance(v, dt.date) else "time")
        ok = got[0] == kind
        if ok and kind != "date":
            g = got[1]
            if v.tzinfo is None:
                ok = g.replace(tzinfo=None) == v and (
                    g.tzinfo is None or
                    (g.utcoffset() == dt.timedelta(0) and
                     datespec.HAS_DEFAULT_UTC[dialect]))
            else:
                ok = g.tzinfo is not None and g == v and \
                    g.microsecond == v.microsecond
        elif ok:
            ok = got[1] == v
        if not ok:
            rec.violation(CHECK, dialect, "written-text-denotes-another-value",
                          feats, wit, f"{v!r} written as {text!r}, which denotes "
                                      f"{got!r} in {dialect}")


def shard(i, n, tier, seed, rec, hb):
    pvl = common.import_pvl()
    decode_side(rec, hb, pvl, tier, seed, i, n)
    encode_side(rec, hb, pvl, tier, seed, i, n)


def finish_kwargs(rec, tier):
    req = ["loads_in_context"]
    for d in datespec.DIALECTS:
        req += [f"decode[{d}][date]", f"decode[{d}][time]", f"decode[{d}][datetime]"]
    req += ["decode[PVL][leap]", "decode[ODL][rejected]", "decode[PDS3][rejected]",
            "decode[default][leap]"]
    req += [f"encode_text[{d}]" for d in ("PVL", "ODL", "PDS3", "ISIS")]
    return dict(required_counters=req,
                assumptions=["reference reader vlib/datespec.py written from the "
                             "Blue Book / ODL BNF forms; zone_offset ::= sign "
                             "hour [: minute]; day-of-year 366 only in leap "
                             "years (others not generated)"])


def replay(data):
    pvl = common.import_pvl()
    D, G = pvl.decoder, pvl.grammar
    bad = 0
    for w in data["witnesses"]:
        w = w["witness"]
        d = w["dialect"]
        if "value" in w:
            print("encode side:", w)
            bad += 1
            continue
        try:
            got = DECODER[d](D, G).decode_datetime(w["text"])
        except Exception as e:
            got = f"{type(e).__name__}"
        print(d, repr(w["text"]), "decode_datetime ->", repr(got), "| spec:",
              datespec.read(w["text"], d))
        if "doc" in w:
            try:
                print("   loads ->", dict(pvl.loads(w["doc"], parser=strict_parser(pvl, d))))
            except Exception as e:
                print("   loads ->", type(e).__name__)
        bad += 1
    return 1 if bad else 0
