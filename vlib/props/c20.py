"""C20 - command-line tools are faithful front-ends of the library.

Differential monitor: pvl_translate / pvl_validate run on scratch files
(well-formed, with missing values, damaged, with trailing binary, non-ASCII,
corpus) and their stdout / failure compared with the corresponding library
expression, which the harness evaluates with its own dialect table."""
import contextlib
import io
import json
import os
import random
import shutil
import subprocess
import tempfile

from .. import common
from .. import gen_text as gt
from ..gen_values import strict_parser
from .c05 import apply_damage, render_plain, replacement_pool
from .c08 import assignments

CHECK = "C20"
RULE = (
    "label files: generated well-formed (5 dialect spellings), with missing "
    "values, token-damaged, with trailing binary after END, non-ASCII, and "
    "every tests/data file, and 27 small labels around what one or another "
    "encoder refuses (in a shuffled order: the tools keep one instance per "
    "format for the life of the process); pvl_translate -of {PDS3,ODL,ISIS,PVL,JSON} "
    "(stdout, explicit outfile, stdin) and pvl_validate (one file, many "
    "files); most in-process with captured stdout, a sample as real "
    "subprocesses. distinct = (file id, tool, format); non-trivial = all"
)
FORMATS = ("PDS3", "ODL", "ISIS", "PVL", "JSON")
ROWS = ("PDS3", "ODL", "PVL", "ISIS", "Omni")
STALL_S = 1800


def nshards(tier):
    return 16


def own_encoder(pvl, fmt):
    E = pvl.encoder
    return {"PDS3": E.PDSLabelEncoder, "ODL": E.ODLEncoder, "ISIS": E.ISISEncoder,
            "PVL": E.PVLEncoder}[fmt]()


def own_row(pvl, row):
    """(parser, encoder) for a pvl_validate row, rebuilt from the documentation."""
    P, G, D, E = pvl.parser, pvl.grammar, pvl.decoder, pvl.encoder
    if row == "PDS3":
        g = G.PDSGrammar(); d = D.PDSLabelDecoder(grammar=g)
        return P.ODLParser(grammar=g, decoder=d), E.PDSLabelEncoder(grammar=g, decoder=d)
    if row == "ODL":
        g = G.ODLGrammar(); d = D.ODLDecoder(grammar=g)
        return P.ODLParser(grammar=g, decoder=d), E.ODLEncoder(grammar=g, decoder=d)
    if row == "PVL":
        g = G.PVLGrammar(); d = D.PVLDecoder(grammar=g)
        return P.PVLParser(grammar=g, decoder=d), E.PVLEncoder(grammar=g, decoder=d)
    if row == "ISIS":
        g = G.ISISGrammar(); d = D.OmniDecoder(grammar=g)
        return P.OmniParser(grammar=g, decoder=d), E.ISISEncoder(grammar=g, decoder=d)
    g = G.OmniGrammar(); d = D.OmniDecoder(grammar=g)
    return P.OmniParser(grammar=g, decoder=d), E.PVLEncoder(grammar=g, decoder=d)


def run_tool(main, argv, stdin_text=None):
    out, err = io.StringIO(), io.StringIO()
    import sys
    old_in = sys.stdin
    try:
        if stdin_text is not None:
            sys.stdin = io.StringIO(stdin_text)
        with contextlib.redirect_stdout(out), contextlib.redirect_stderr(err):
            with common.cpu_limit(120):
                rc = main(argv)
        return ("ok", out.getvalue(), rc)
    except SystemExit as e:
        return ("exit", out.getvalue(), e.code)
    except common.CaseTimeout:
        return ("timeout", "", None)
    except Exception as e:
        return ("exc", out.getvalue(), type(e).__name__)
    finally:
        sys.stdin = old_in


def jsonable_pairs(m):
    out = []
    for k, v in list(m):
        out.append([k, jsonable_value(v)])
    return out


def jsonable_value(v):
    if isinstance(v, dict):
        return {"__pairs__": jsonable_pairs(v)}
    if isinstance(v, (list, tuple)):
        return [jsonable_value(x) for x in v]
    return v


def pairs_hook(pairs):
    return {"__pairs__": [[k, v] for k, v in pairs]}


def translate_case(rec, pvl, path, fid, kind):
    import pvl.pvl_translate as pt
    for fmt in FORMATS:
        rec.case((fid, "translate", fmt), True,
                 sample={"file": fid, "tool": "pvl_translate", "format": fmt}
                 if rec.c["evaluations"] % 997 == 0 else None)
        # the library expression
        try:
            with common.cpu_limit(120):
                m = pvl.load(path)
                if fmt == "JSON":
                    buf = io.StringIO()
                    json.dump(m, buf)
                    want = ("ok", buf.getvalue())
                else:
                    want = ("ok", pvl.dumps(pvl.load(path), encoder=own_encoder(pvl, fmt)))
        except common.CaseTimeout:
            rec.inconc("CPU budget exceeded computing the expectation for " + fid)
            continue
        except Exception as e:
            want = ("fail", type(e).__name__)
        got = run_tool(pt.main, ["-of", fmt, path])
        rec.count(f"translate[{fmt}][{want[0]}]")
        feats = {"format": fmt, "file_kind": kind}
        wit = {"file": fid, "format": fmt, "path_kind": kind}
        if got[0] == "timeout":
            rec.inconc("CPU budget exceeded in pvl_translate on " + fid)
            continue
        if want[0] == "fail":
            if got[0] == "ok":
                rec.violation(CHECK, "pvl_translate", "succeeds-where-library-fails",
                              {**feats, "library": want[1]}, wit, got[1][:200])
            continue
        if got[0] != "ok":
            rec.violation(CHECK, "pvl_translate", "fails-where-library-succeeds",
                          {**feats, "tool": str(got[2])}, wit, str(got)[:300])
            continue
        if fmt == "JSON":
            try:
                a = json.loads(got[1], object_pairs_hook=pairs_hook)
                b = json.loads(json.dumps(jsonable_value(m)), object_pairs_hook=pairs_hook)
                b = {"__pairs__": b["__pairs__"]["__pairs__"]} if False else b
                ok = json.loads(got[1], object_pairs_hook=pairs_hook) == \
                    json.loads(want[1], object_pairs_hook=pairs_hook)
                # and the document denotes the label's names and values
                ok = ok and _json_matches(m, json.loads(got[1], object_pairs_hook=pairs_hook))
            except Exception as e:
                ok = False
            if not ok:
                rec.violation(CHECK, "pvl_translate", "json-output-differs", feats,
                              wit, got[1][:300])
            else:
                rec.count("translate_outputs_identical")
        elif got[1] != want[1]:
            rec.violation(CHECK, "pvl_translate", "output-differs-from-dumps", feats,
                          wit, f"{got[1]!r:.200} vs {want[1]!r:.200}")
        else:
            rec.count("translate_outputs_identical")
    # explicit outfile and stdin for one format
    fmt = "PVL"
    try:
        want = pvl.dumps(pvl.load(path), encoder=own_encoder(pvl, fmt))
    except Exception:
        return
    try:
        text = open(path, encoding="utf-8").read()
    except (UnicodeDecodeError, OSError):
        return
    g2 = run_tool(pt.main, ["-of", fmt], stdin_text=text)
    rec.count("translate_stdin_runs")
    if g2[0] != "ok" or g2[1] != want:
        rec.violation(CHECK, "pvl_translate", "stdin-differs-from-dumps",
                      {"format": fmt, "file_kind": kind}, {"file": fid},
                      f"{g2[0]} {g2[1]!r:.200} vs {want!r:.200}")


def _json_matches(container, node):
    pairs = node.get("__pairs__") if isinstance(node, dict) else None
    if pairs is None:
        return False
    items = list(container)
    if len(items) != len(pairs):
        return False
    for (k, v), (jk, jv) in zip(items, pairs):
        if k != jk:
            return False
        if isinstance(v, dict):
            if not _json_matches(v, jv):
                return False
        elif isinstance(v, (list, tuple)):
            if json.loads(json.dumps(v)) != jv:
                return False
        elif v != jv:
            return False
    return True


def expected_rows(pvl, path):
    text = pvl.get_text_from(path)
    rows = {}
    for row in ROWS:
        parser, enc = own_row(pvl, row)
        try:
            with common.cpu_limit(120):
                m = pvl.loads(text, parser=parser)
            loads = True
        except common.CaseTimeout:
            raise
        except BaseException:
            loads, m = False, None
        encodes = None
        if loads:
            try:
                pvl.dumps(m, encoder=enc)
                encodes = True
            except Exception:
                encodes = False
        rows[row] = (loads, encodes)
    return rows


def parse_single_report(out):
    rows = {}
    for line in out.strip().split("\n"):
        cells = [c.strip() for c in line.split("|")]
        if len(cells) != 3:
            return None
        loads = {"Loads": True, "does NOT load": False}.get(cells[1])
        enc = {"Encodes": True, "does NOT encode": False, "": None}.get(cells[2], "?")
        if loads is None or enc == "?":
            return None
        rows[cells[0]] = (loads, enc)
    return rows


def parse_many_report(out, n_files):
    lines = out.strip().split("\n")
    if len(lines) != n_files + 3:
        return None
    header = [c.strip() for c in lines[1].split("|")]
    res = []
    for line in lines[3:]:
        cells = [c.strip() for c in line.split("|")]
        row = {}
        for name, cell in zip(header[1:], cells[1:]):
            cell = " ".join(cell.split())
            m = {"L E": (True, True), "L No E": (True, False), "No L": (False, None)}
            if cell not in m:
                return None
            row[name] = m[cell]
        res.append((cells[0], row))
    return res


def validate_case(rec, pvl, paths, fids, kinds, force_flags=None):
    import pvl.pvl_validate as pv
    try:
        want = [expected_rows(pvl, p) for p in paths]
    except common.CaseTimeout:
        rec.inconc("CPU budget exceeded computing the expectation")
        return
    # the verbosity flags only add diagnostics on stderr: same report
    flags = ([], ["-v"], ["-vv"])[int(common.h64(("v", tuple(fids))), 16) % 3]
    if force_flags is not None:
        flags = force_flags
    rec.count("validate_flags[" + (" ".join(flags) or "none") + "]")
    got = run_tool(pv.main, flags + list(paths))
    if flags and got[0] == "ok" and got[1].startswith("pvl library version:"):
        # with -v the report is preceded by the library version
        got = (got[0], got[1].split("\n", 1)[1] if "\n" in got[1] else "") + tuple(got[2:])
    rec.case((tuple(fids), "validate"), True)
    rec.count("validate_runs[single]" if len(paths) == 1 else "validate_runs[many]")
    wit = {"files": fids, "kinds": kinds}
    if got[0] != "ok":
        rec.violation(CHECK, "pvl_validate", "does-not-complete-with-a-report",
                      {"how": got[0], "detail": str(got[2]),
                       "file_kind": kinds[0]}, wit, str(got)[:300])
        return
    if len(paths) == 1:
        rep = parse_single_report(got[1])
        if rep is None or list(rep) != list(ROWS):
            rec.violation(CHECK, "pvl_validate", "report-layout", {"files": 1}, wit,
                          got[1][:300])
            return
        reps = [rep]
    else:
        many = parse_many_report(got[1], len(paths))
        if many is None or [f for f, _ in many] != list(paths):
            rec.violation(CHECK, "pvl_validate", "report-layout",
                          {"files": len(paths)}, wit, got[1][:400])
            return
        reps = [r for _, r in many]
    for fid, kind, rep, exp in zip(fids, kinds, reps, want):
        for row in ROWS:
            rec.count("validate_cells_compared")
            if rep.get(row) != exp[row]:
                which = ("loads" if rep.get(row, (None,))[0] != exp[row][0]
                         else "encodes")
                rec.violation(CHECK, "pvl_validate", "verdict-differs-from-library",
                              {"row": row, "which": which, "file_kind": kind,
                               "library": str(exp[row]), "tool": str(rep.get(row))},
                              {"file": fid, "row": row}, f"{rep.get(row)} vs {exp[row]}")


# Small labels around what one or the other encoder refuses (and its accepted
# neighbour): both tools keep one encoder / parser per format for the life of
# the process, so a refusal must not change what the next file gets.
HAZARD_TEXTS = [
    "a = (((1, 2), (3, 4)), ((5, 6), (7, 8)))\nEND\n",      # 3-D: ODL/PDS3 refuse
    "a = ((1, 2), (3, 4))\nEND\n",                          # 2-D: fine
    "a = (1, 2, 3)\nb = ((1), (2))\nEND\n",
    "a = ()\nEND\n",                                        # empty: ODL/PDS3 refuse
    "a = {}\nb = {1, 2}\nEND\n",
    "a = {{1, 2}, 3}\nEND\n",                               # nested set
    "a = (1, {2, 3})\nEND\n",                               # set inside sequence
    "a = \"text\" <m>\nEND\n",                              # units on a string
    "a = (1, 2) <m>\nb = 5 <m>\nEND\n",                     # units on a sequence
    "a = 23:59:60\nb = 12:00:00\nEND\n",                    # leap second text
    "a = 12:00:00.123456\nb = 12:00:00.123\nEND\n",         # sub-ms: PDS3 refuses
    "a = 2001-01-01T12:00:00+05:00\nb = 2001-01-01T12:00:00Z\nEND\n",
    "a_parameter_name_longer_than_thirty_chars = 1\nshort = 2\nEND\n",
    "a.b = 1\nEND\n",                                       # not an ODL identifier
    "a = 'it\"s'\nb = \"it's\"\nEND\n",
    "GROUP = g\n a = 1\n GROUP = h\n  b = 2\n END_GROUP\nEND_GROUP\nEND\n",
    "GROUP = g\n a = 1\n a = 2\nEND_GROUP\nEND\n",
    "OBJECT = o\n a = 1\nEND_OBJECT\nGROUP = g\n b = 2\nEND_GROUP\nEND\n",
    "a = 1\nEND\n",
    # units that only some encoders take
    "a = 5 <m^2>\nb = 5 <m**2>\nEND\n",
    "a = 5 <%>\nEND\n",
    "a = 2.5 <1/s>\nb = (1, 2 <s**-1>)\nEND\n",
    "a = 5 <m**2.5>\nGROUP = g\n b = 1 <W*m**-2>\nEND_GROUP\nEND\n",
    # ParseError (not LexerError) for the strict rows
    "GROUP = g\n a = 1\n",
    "a = (1, 2\n",
    "a = 1\nname =\n",
    "OBJECT = o\n a = 1\nEND_GROUP\nEND\n",
]


# files given as bytes: empty, END only, byte-order mark, Latin-1 bytes that are
# not UTF-8, lone CR line ends, NULs, UTF-16
HAZARD_BYTES = [
    b"", b"END", b"END\n", b"\n\n", b"\xef\xbb\xbfa = 1\nEND\n", b"a = 1\r\nb = 2\r\nEND\r\n",
    b"a = 1\rb = 2\rEND\r", b'a = "25\xb0"\nEND\n', b"a = 25 <\xb5m>\nEND\n",
    b"a = 1\nEND\n\x00\x00\x00", b"a = 1\x00\nEND\n", "a = 1\nEND\n".encode("utf-16"),
    b"/* only a comment */\n", b"a = 1 /* unterminated\nEND\n", b"a = 'x\nEND\n",
    b"a = 1\nEND\n" + bytes(range(256)),
    b"a = 1 # c\rb = 2\rEND\r", b"# hdr\ra = 1\r\nb = 2 # x\r\nEND\r\n",
    b"a = 1 # c\r\nb = 2\r\nEND\r\n",
]


def make_files(pvl, tmp, rng, tier, part, nparts):
    """Yield (path, file id, kind)."""
    n = 60 if tier == "quick" else 2000
    pool = replacement_pool()
    order = list(range(len(HAZARD_TEXTS)))
    for rep in range(1 if tier == "quick" else 4):
        rng.shuffle(order)
        for hi in order:
            path = os.path.join(tmp, f"h{rep}_{hi}.lbl")
            with open(path, "w") as f:
                f.write(HAZARD_TEXTS[hi])
            yield path, f"hazard:{hi}", "hazard"
        for bi in rng.sample(range(len(HAZARD_BYTES)), len(HAZARD_BYTES)):
            path = os.path.join(tmp, f"hb{rep}_{bi}.lbl")
            with open(path, "wb") as f:
                f.write(HAZARD_BYTES[bi])
            yield path, f"hazard-bytes:{bi}", "hazard"
    for j in range(part, n, nparts):
        reader = gt.READERS[j % 5]
        while True:
            doc = gt.gen_document(rng, reader, max_top=4)
            if not any(c == "seq-inside-set" for c, _ in doc.meta):
                break
        kind = rng.choice(("well-formed", "well-formed", "missing-values",
                           "damaged", "trailing-binary", "non-ascii"))
        toks = list(doc.tokens)
        data = None
        if kind == "missing-values":
            asg = assignments(doc)
            if asg:
                drop = set()
                for sid, vals, eqi in rng.sample(asg, rng.randint(1, min(2, len(asg)))):
                    drop.update(vals)
                toks = [t for k, t in enumerate(toks) if k not in drop]
        if kind == "damaged":
            ops = [(rng.choice(("delete", "duplicate", "swap", "replace", "truncate")),
                    rng.randrange(len(toks)), rng.choice(pool))]
            toks = apply_damage(toks, ops) or toks
            text = render_plain(toks)
        else:
            text = gt.render(toks, gt.gen_layout(rng, toks, reader, "lines"))
        if kind == "trailing-binary":
            if reader == "default" and rng.random() < 0.5:
                # characters that str.splitlines() takes for line boundaries
                text = 'note3 = "one\x1ctwo\x1dthree\x1efour"\nw\x1cx = y\x1ez\n' + text
            text = text.rstrip() + " \nEND\n"      # (blank: the text may end in a dash)
            data = text.encode("utf-8") + bytes(rng.randrange(256) for _ in range(300))
        if kind == "non-ascii":
            text = 'note = "caf\xe9 Δv"\n' + text
        path = os.path.join(tmp, f"f{j}.lbl")
        with open(path, "wb") as f:
            f.write(data if data is not None else text.encode("utf-8"))
        yield path, f"gen:{reader}:{j}:{kind}", kind
    root = os.path.join(common.REPO, "tests", "data")
    files = []
    for dp, dn, fn in os.walk(root):
        for f in sorted(fn):
            files.append(os.path.join(dp, f))
    for k, p in enumerate(sorted(files)):
        if k % nparts == part:
            dst = os.path.join(tmp, f"c{k}_" + os.path.basename(p))
            shutil.copy(p, dst)
            yield dst, "corpus:" + os.path.relpath(p, root), "corpus"


def subprocess_sample(rec, pvl, path, fid):
    """The installed entry points as real processes."""
    env = dict(os.environ)
    env["PYTHONPATH"] = common.REPO
    # explicit outfile (a real process: the tool never closes its outfile)
    code = ("import sys; from pvl.pvl_translate import main; "
            "sys.exit(main(sys.argv[1:]))")
    try:
        want = pvl.dumps(pvl.load(path), encoder=own_encoder(pvl, "PVL"))
    except Exception:
        want = None
    if want is not None:
        outp = path + ".out"
        try:
            r = subprocess.run([common.PY, "-c", code, "-of", "PVL", path, outp],
                               env=env, capture_output=True, text=True, timeout=300)
            rec.count("translate_outfile_runs")
            written = open(outp, newline="").read() if os.path.exists(outp) else None
            if r.returncode != 0 or written != want:
                rec.violation(CHECK, "pvl_translate", "outfile-differs-from-dumps",
                              {"format": "PVL"}, {"file": fid},
                              f"rc={r.returncode} {written!r:.200} vs {want!r:.200}")
        except subprocess.TimeoutExpired:
            rec.inconc("pvl_translate subprocess timed out (wall clock)")
    for tool, args in (("pvl_translate", ["-of", "PVL", path]),
                       ("pvl_validate", [path])):
        code = (f"import sys; from pvl.{tool} import main; "
                "sys.exit(main(sys.argv[1:]))")
        try:
            r = subprocess.run([common.PY, "-c", code] + args, env=env,
                               capture_output=True, text=True, timeout=300)
        except subprocess.TimeoutExpired:
            rec.inconc(f"{tool} subprocess timed out (wall clock) on {fid}")
            continue
        rec.count(f"subprocess_runs[{tool}]")
        import importlib
        mod = importlib.import_module(f"pvl.{tool}")
        inproc = run_tool(mod.main, args)
        same = (r.returncode == 0) == (inproc[0] == "ok") and (
            inproc[0] != "ok" or r.stdout.replace("\r\n", "\n") ==
            inproc[1].replace("\r\n", "\n"))
        if not same:
            rec.violation(CHECK, tool, "subprocess-differs-from-in-process", {},
                          {"file": fid}, f"rc={r.returncode} {r.stdout[:150]!r} vs "
                                         f"{inproc[0]} {inproc[1][:150]!r}")


def shard(i, n, tier, seed, rec, hb):
    pvl = common.import_pvl()
    tmp = tempfile.mkdtemp(prefix="pvl-c20-", dir="/dev/shm")
    rng = random.Random(f"C20-{seed}-{i}")
    try:
        files = list(make_files(pvl, tmp, rng, tier, i, n))
        for k, (path, fid, kind) in enumerate(files):
            hb.beat()
            rec.count(f"files[{kind}]")
            translate_case(rec, pvl, path, fid, kind)
            validate_case(rec, pvl, [path], [fid], [kind])
            if kind == "hazard":
                # the small hazard labels with every verbosity flag
                for fl in ([], ["-v"], ["-vv"], ["-v", "-v", "-v"]):
                    validate_case(rec, pvl, [path], [fid], [kind], force_flags=fl)
            if k % 10 == 0 or tier == "thorough" and k % 3 == 0:
                subprocess_sample(rec, pvl, path, fid)
        # several files per invocation
        for rep in range(3 if tier == "quick" else 30):
            if len(files) < 2:
                break
            pick = rng.sample(files, min(len(files), rng.randint(2, 4)))
            hb.beat()
            validate_case(rec, pvl, [p for p, _, _ in pick], [f for _, f, _ in pick],
                          [k for _, _, k in pick])
        # many files per invocation (around the tens: a report is a table with
        # one row per file, whatever their number)
        sizes = (9, 10, 11, 12, 19, 20, 21, 30, 31, 40, 50, 51)
        for size in (sizes[(2 * i) % len(sizes)], sizes[(2 * i + 1) % len(sizes)]):
            if not files:
                break
            pick = [files[(j * 7 + i) % len(files)] for j in range(size)]
            hb.beat()
            rec.count("validate_runs[ten-or-more-files]" if size >= 10
                      else "validate_runs[nine-files]")
            validate_case(rec, pvl, [p for p, _, _ in pick], [f for _, f, _ in pick],
                          [k for _, _, k in pick])
    finally:
        shutil.rmtree(tmp, ignore_errors=True)


def finish_kwargs(rec, tier):
    req = ["translate_outputs_identical", "translate_outfile_runs",
           "translate_stdin_runs", "validate_runs[single]", "validate_runs[many]",
           "validate_runs[ten-or-more-files]",
           "validate_cells_compared", "subprocess_runs[pvl_translate]",
           "subprocess_runs[pvl_validate]", "files[corpus]", "files[damaged]",
           "files[missing-values]", "files[trailing-binary]", "files[non-ascii]",
           "files[hazard]"]
    req += [f"translate[{f}][ok]" for f in FORMATS]
    return dict(required_counters=req,
                assumptions=["the harness's own dialect table (DESIGN 3.1), not "
                             "pvl_validate.dialects / pvl_translate.formats"])


def replay(data):
    for w in data["witnesses"]:
        print(w["witness"], w["message"][:300])
    print("files are regenerated from the seed: re-run ./check C20 with the "
          "recorded VERIF_SEED")
    return 1
