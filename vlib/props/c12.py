"""C12 - encoder output obeys the surface rules of its dialect.

Monitor: an independent line-level reader (vlib/scanner.py, no pvl import)
over every text the four encoders produce for the C01 module generator under
random options; six rule groups (character set, line ends, ODL/PDS3 statement
forms, PVL/ISIS statement forms, layout, block structure vs. the input)."""
import random
import re

from .. import common
from ..gen_values import (DIALECTS, gen_module, gen_config, make_encoder,
                          IDENT)
from ..normalise import clone, is_container
from ..scanner import scan, value_text, elements, brackets, NUM_RE
from .c15 import spec_allowed

CHECK = "C12"
RULE = (
    "C01's module generator (representable modules only) x 4 encoders x "
    "random options (indent, width, newline, end-name, delimiter, PDS3 "
    "options); every produced text is read by the independent scanner. "
    "distinct = (dialect, case seed); non-trivial = the encoder returned text"
)
KW = {
    "PVL": {"group": ("BEGIN_GROUP", "END_GROUP"), "object": ("BEGIN_OBJECT", "END_OBJECT")},
    "ODL": {"group": ("GROUP", "END_GROUP"), "object": ("OBJECT", "END_OBJECT")},
    "PDS3": {"group": ("GROUP", "END_GROUP"), "object": ("OBJECT", "END_OBJECT")},
    "ISIS": {"group": ("Group", "End_Group"), "object": ("Object", "End_Object")},
}


def nshards(tier):
    return 16


def cfg_newline(dialect, cfg):
    if dialect == "PDS3":
        return "\r\n"
    return cfg.get("newline", "\r\n" if dialect == "ODL" else "\n")


def cfg_delim(dialect, cfg):
    if dialect == "PDS3":
        return False
    return cfg.get("end_delimiter", dialect == "PVL")


def odl_name_ok(k):
    if len(k) > 30 or k != k.upper():
        return False
    k2 = k[1:] if k.startswith("^") else k
    parts = k2.split(":")
    return 1 <= len(parts) <= 2 and all(IDENT.match(p) for p in parts)


def check_text(rec, dialect, cfg, module_before, module_after, text, wit):
    nl = cfg_newline(dialect, cfg)
    delim = cfg_delim(dialect, cfg)
    width, indent = cfg["width"], cfg["indent"]
    agg_end = cfg["aggregation_end"]

    def bad(rule, detail, **feats):
        rec.violation(CHECK, dialect, rule, feats, wit, detail)

    def ran(rule):
        rec.count(f"rule[{rule}]")

    # 1. character set
    ran("charset")
    ds = "PVL" if dialect == "ISIS" else dialect
    for i, c in enumerate(text):
        if not spec_allowed(ds, ord(c)):
            bad("char-outside-dialect-set", f"U+{ord(c):04X} at {i}",
                block="ascii" if ord(c) < 128 else "latin1" if ord(c) < 256 else "beyond")
            break
    # PDS3: no tabs (unless tab replacement was explicitly switched off)
    if dialect == "PDS3" and cfg.get("tab_replace", 4) > 0:
        ran("pds3-no-tab")
        if "\t" in text:
            bad("pds3-tab-in-output", repr(text[max(0, text.find(chr(9)) - 20):][:60]))
    stmts, problems, tail = scan(text, nl)
    # 2. line terminators
    ran("line-ends")
    for kind, no, detail in problems:
        bad(kind, f"line {no}: {detail}")
    if problems:
        return
    # final line
    ran("final-line")
    if not stmts or stmts[-1].kind != "final":
        bad("no-final-END", repr(text[-40:]))
        return
    fin = stmts[-1]
    if dialect in ("ODL", "PDS3"):
        if not text.endswith("END" + (";" if delim else "") + nl) or fin.keyword != "END":
            bad("final-END-line-form", repr(text[-20:]))
    else:
        if not text.endswith("END" + (";" if delim else "")):
            bad("final-END-line-form", repr(text[-20:]))
    if bool(fin.delim) != bool(delim):
        bad("delimiter-usage", f"final END delim={fin.delim!r}", where="final")
    # walk statements against the module
    expected = []

    def walk(c, level):
        items = list(c)
        plain = [k for k, v in items if not is_container(v)]
        longest = max((len(k) for k in plain), default=0)
        for k, v in items:
            if is_container(v):
                expected.append(("begin", level, k, type(v).__name__, None))
                walk(v, level + 1)
                expected.append(("end", level, k, type(v).__name__, None))
            else:
                expected.append(("assign", level, k, v, longest))

    walk(module_before, 0)
    body = stmts[:-1]
    ran("structure")
    if len(body) != len(expected):
        bad("statement-count-differs-from-module",
            f"{len(body)} statements for {len(expected)} expected: "
            f"{[(s.kind, s.key or s.name) for s in body][:12]}")
        return
    kw = KW[dialect]
    for s, (ekind, level, name, cls, longest) in zip(body, expected):
        if s.kind != ekind:
            bad("statement-kind-differs-from-module",
                f"line {s.lineno}: {s.kind} where {ekind} {name!r} expected")
            return
        # 5. indentation
        ran("indentation")
        if s.indent != level * indent:
            bad("indentation", f"line {s.lineno}: indent {s.indent} != "
                               f"{level}*{indent}: {s.lines[0]!r}", kind=s.kind)
        # delimiters
        last = s.lines[-1]
        if s.kind in ("begin", "end"):
            ran("block-statement-form")
            has = bool(s.delim)
            if has != bool(delim):
                bad("delimiter-usage", f"line {s.lineno}: {s.lines[0]!r}",
                    where=s.kind)
            gk = "group" if cls == "PVLGroup" else "object"
            idx = 0 if s.kind == "begin" else 1
            okkw = s.keyword == kw[gk][idx]
            if not okkw and dialect == "PDS3" and gk == "group" \
                    and s.keyword == kw["object"][idx]:
                okkw = True  # documented GROUP -> OBJECT conversion
                rec.count("pds3_group_written_as_object")
            if not okkw:
                bad("block-keyword", f"line {s.lineno}: {s.keyword!r} for a "
                                     f"{cls} in {dialect}", kind=s.kind)
            if s.kind == "begin":
                if s.name != name:
                    bad("block-name", f"line {s.lineno}: {s.name!r} != {name!r}")
            else:
                if agg_end and s.name != name:
                    bad("end-statement-name", f"line {s.lineno}: END carries "
                                              f"{s.name!r}, block is {name!r}",
                        configured=True)
                if not agg_end and s.name is not None:
                    bad("end-statement-name", f"line {s.lineno}: END carries a "
                                              "name although aggregation_end "
                                              "is off", configured=False)
            continue
        # assignment
        ran("assignment-form")
        want_key = name.upper() if dialect in ("ODL", "PDS3") else name
        if s.key != want_key:
            bad("parameter-name", f"line {s.lineno}: {s.key!r} != {want_key!r}")
        if dialect in ("ODL", "PDS3"):
            ran("odl-name-form")
            if not odl_name_ok(s.key):
                bad("odl-parameter-name-form", f"{s.key!r}")
        ends_delim = last.rstrip(" ").endswith(";") and not _ends_in_quote(s)
        ran("delimiter")
        if delim and not last.endswith(";"):
            bad("delimiter-usage", f"line {s.lineno}: no ';' after {last[-30:]!r}",
                where="assign")
        if not delim and ends_delim:
            bad("delimiter-usage", f"line {s.lineno}: ';' after {last[-30:]!r}",
                where="assign")
        # alignment: a one-line statement whose aligned form fits is aligned
        ran("alignment")
        aligned_col = level * indent + longest + 1
        rebased_col = level * indent + len(s.key) + 1
        if s.eq_col not in (aligned_col, rebased_col):
            bad("equals-column", f"line {s.lineno}: '=' at {s.eq_col}, aligned "
                                 f"{aligned_col}, re-based {rebased_col}: "
                                 f"{s.lines[0]!r}")
        elif len(s.lines) == 1 and s.eq_col != aligned_col:
            aligned_len = len(s.lines[0]) + (aligned_col - s.eq_col) + len(nl)
            if aligned_len <= width:
                bad("equals-not-aligned-although-it-fits",
                    f"line {s.lineno}: {s.lines[0]!r} (aligned length "
                    f"{aligned_len} <= width {width})")
        if len(s.lines) > 1:
            rec.count("wrapped_or_multiline_statements")
        # value-level rules
        vt = value_text(s)
        for kind, txt, prev in elements(vt):
            if kind == "single":
                rec.count("single_quoted_strings")
                if dialect in ("ODL", "PDS3"):
                    ran("symbol-on-one-line")
                    if any(c in txt for c in "\n\r\v\f"):
                        bad("symbol-string-spans-lines", repr(txt[:60]))
            elif kind == "units":
                rec.count("units_expressions")
                if dialect in ("ODL", "PDS3"):
                    ran("units-after-number")
                    if prev is None or not NUM_RE.match(prev):
                        bad("units-not-after-number", f"{prev!r} <{txt}>")
        v = cls   # (assignments carry their value in this slot)
        if dialect in ("ODL", "PDS3") and type(v) is str and " " in v.strip(" ") \
                and v == v.strip(" ") and "  " not in v \
                and v.isprintable() and v.isascii() and "'" not in v and '"' not in v \
                and 0 < len(v) <= width / 2 \
                and (dialect == "ODL" or cfg.get("symbol_single_quote", True)):
            # a short one-line text with an inner blank is an ODL symbol string:
            # written between apostrophes (unless PDS3's option says otherwise)
            ran("symbol-single-quoted")
            if not "".join(vt).lstrip().startswith("'"):
                bad("symbol-not-single-quoted", f"line {s.lineno}: {s.lines[0]!r}")
        if dialect in ("ODL", "PDS3") and any(c in "({" for c in "".join(vt)):
            # set / sequence restrictions of the ODL family (encode_sequence,
            # encode_set): no empty sequence, at most two dimensions, sets
            # hold scalars only; PDS3 sets hold no real numbers or dates
            ran("odl-set-sequence-form")
            for ev in brackets(vt):
                if ev[0] == "close" and ev[1] == ")" and ev[3] == 0:
                    bad("odl-empty-sequence", f"line {s.lineno}: {s.lines[0]!r}")
                elif ev[0] == "open" and ev[1] == "(" and ev[2] > 2:
                    bad("odl-sequence-deeper-than-two", f"line {s.lineno}: {s.lines[0]!r}")
                elif ev[0] == "open" and "{" in ev[3]:
                    bad("odl-set-holds-non-scalar", f"line {s.lineno}: {s.lines[0]!r}")
                elif ev[0] == "member" and dialect == "PDS3" and ev[3].endswith("{"):
                    if ev[1] == "units" or (ev[1] == "bare" and REAL_OR_DATE.match(ev[2])):
                        bad("pds3-set-holds-real-date-or-units",
                            f"line {s.lineno}: {ev[2]!r} in {s.lines[0]!r}")


REAL_OR_DATE = re.compile(r"^[-+]?(\d+\.\d*|\.\d+|\d+[eE][-+]?\d+|\d+\.?\d*[eE][-+]?\d+)$"
                          r"|^\d{4}-\d{2,3}(-\d{2})?(T.*)?$|^\d{1,2}:\d{2}.*$")


def _ends_in_quote(s):
    last = s.lines[-1].rstrip(" ")
    return last.endswith(('"', "'"))


def case(rec, pvl, dialect, key):
    rng = random.Random(key)
    cfg = gen_config(rng, dialect)
    if dialect == "PDS3" and rng.random() < 0.3:
        # leave PDS3-specific options to their documented defaults
        for k in ("symbol_single_quote", "time_trailing_z", "tab_replace",
                  "convert_group_to_object"):
            if rng.random() < 0.6:
                cfg.pop(k, None)
        rec.count("pds3_options_left_to_defaults")
    gm = gen_module(rng, dialect, cfg["width"], pvl.collections,
                    plain_names_only=True)
    if dialect in ("ODL", "PDS3") and rng.random() < 0.15:
        # a name that is not an ODL parameter name: the encoder must refuse;
        # if it writes the label anyway the scanner's name rule sees it
        bad = rng.choice(("A_NAME_THAT_IS_LONGER_THAN_30_CHARS", "a-b", "1a", "a_",
                          "a.b", "ns:", "^", "a b", "x:y:z", "A2345678901234567890123456789_31",
                          # letters that str.upper() turns into ASCII (ß -> SS,
                          # ı -> I, ſ -> S, ﬁ -> FI): no ODL identifiers
                          "ma\xdfstab", "\u0131d", "\u017fize", "\ufb01le",
                          "MASS_OF_THE_SPACECRAFT_IN_GRO\xdf"))
        if rng.random() < 0.4:
            # names around the 30-character limit, plain, as a ^pointer and
            # with a namespace: 29 and 30 characters are legal, 31 is not
            total = rng.choice((29, 30, 31, 31))
            prefix = rng.choice(("", "^", "NS:", "^NS:"))
            stem = "DESCRIPTION_OF_THE_IMAGE_TABLE_AND_MORE"
            bad = prefix + stem[:total - len(prefix)]
            rec.count(f"odl_boundary_names[{total}]")
        gm.module.append(bad, 1)
        rec.count("odl_bad_name_cases")
    before = clone(gm.module)
    wit = {"dialect": dialect, "cfg": cfg, "seed": key}
    enc = make_encoder(pvl, dialect, cfg)
    try:
        text = enc.encode(gm.module)
    except (ValueError, TypeError):
        rec.count(f"refused[{dialect}]")
        rec.case((dialect, key), False)
        # continued use of the same encoder object after the refusal: whatever
        # it returns now is a text an encoder returned, and has to obey the rules
        try:
            second = clone(before)
            text = enc.encode(second)
        except Exception:
            rec.count("second_attempt_refused_too")
            return
        rec.count("texts_from_a_second_attempt_after_a_refusal")
        wit["text"] = text[:1500]
        wit["second_attempt_by_the_same_encoder_after_a_refusal"] = True
        check_text(rec, dialect, cfg, before, second, text, wit)
        return
    except Exception as e:
        rec.case((dialect, key), False)
        return  # C01's subject
    rec.count(f"texts[{dialect}]")
    wit["text"] = text[:1500]
    check_text(rec, dialect, cfg, before, gm.module, text, wit)
    if rng.random() < 0.2:
        custom_classes_case(rec, pvl, dialect, cfg, before, text, wit)
    rec.case((dialect, key), True,
             sample={"dialect": dialect, "cfg": cfg, "text": text[:400]}
             if rec.c["evaluations"] % 1499 == 0 else None)


_CUSTOM = {}


def custom_classes_case(rec, pvl, dialect, cfg, module, text, wit):
    """The same module built from the caller's own group and object classes,
    written by an encoder told about them (group_class=, object_class=), must
    give the same text: which keyword a block gets is decided by those
    classes, not by PVLGroup / PVLObject."""
    col = pvl.collections
    if "classes" not in _CUSTOM:
        class MyGroup(col.PVLAggregation):
            pass

        class MyObject(col.PVLAggregation):
            pass
        _CUSTOM["classes"] = (MyGroup, MyObject)
    MyGroup, MyObject = _CUSTOM["classes"]

    def convert(c, top=False):
        out = (col.PVLModule if top else MyGroup if isinstance(c, col.PVLGroup)
               else MyObject)()
        for k, v in list(c):
            out.append(k, convert(v) if is_container(v) else v)
        return out

    try:
        enc = make_encoder(pvl, dialect, dict(cfg, group_class=MyGroup,
                                              object_class=MyObject))
        got = enc.encode(convert(module, top=True))
    except (ValueError, TypeError) as e:
        got = ("refused", type(e).__name__)
    rec.count("custom_container_class_dumps")
    if got != text and isinstance(got, str) and "{" in text:
        # the elements of a set may be written in another order
        from .c07 import tokens_outside_quotes

        def canon(t):
            # another element order moves the line breaks of wrapped text
            # strings: white space runs inside quotes are compared as one blank
            t = re.sub(r'"[^"]*"|\'[^\']*\'',
                       lambda m: re.sub(r"\s+", " ", m.group(0)), t)
            return tokens_outside_quotes(t)
        if canon(got) == canon(text) and \
                re.sub(r"\s+", " ", got) != re.sub(r"\s+", " ", text):
            return      # (another order, not just another layout)
    if got != text:
        rec.violation(CHECK, dialect, "custom-container-classes-change-the-text", {},
                      dict(wit, with_custom_classes=repr(got)[:800]),
                      "group_class= / object_class= given to the encoder and used "
                      "in the module: different text")


def shard(i, n, tier, seed, rec, hb):
    pvl = common.import_pvl()
    per = 6000 if tier == "quick" else 800000
    for dialect in common.rotated(DIALECTS, i):
        for j in range(i, per, n):
            hb.beat()
            case(rec, pvl, dialect, f"C12-{seed}-{dialect}-{j}")


def finish_kwargs(rec, tier):
    req = [f"texts[{d}]" for d in DIALECTS] + [
        "rule[charset]", "rule[line-ends]", "rule[final-line]", "rule[structure]",
        "rule[symbol-single-quoted]", "rule[odl-set-sequence-form]",
        "rule[indentation]", "rule[alignment]", "rule[delimiter]",
        "rule[odl-name-form]", "rule[symbol-on-one-line]",
        "rule[units-after-number]", "rule[pds3-no-tab]",
        "wrapped_or_multiline_statements", "single_quoted_strings",
        "units_expressions", "pds3_group_written_as_object", "odl_bad_name_cases",
        "second_attempt_refused_too"]
    return dict(required_counters=req,
                assumptions=["scanner knows only quotes, brackets, <...>, line "
                             "ends and '='; character sets from the "
                             "specification table of C15"])


def replay(data):
    pvl = common.import_pvl()
    rec = common.Rec()
    for w in data["witnesses"]:
        w = w["witness"]
        print("---", w["dialect"], w["cfg"], w["seed"])
        case(rec, pvl, w["dialect"], w["seed"])
    for ent in rec.viol.values():
        print("VIOLATES:", ent["record"], ent["witnesses"][0]["message"][:500])
    return 1 if rec.viol else 0
