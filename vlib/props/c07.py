"""C07 - load, dump, load is stable: normalisation is idempotent.

m1 = loads(t0); t1 = E(m1); m2 = loads(t1); t2 = E(m2).  Required: m1 ~ m2,
m2.errors == [], t1 == t2 (set elements may be ordered differently)."""
import os
import random
import re

from .. import common
from .. import gen_text as gt
from ..gen_values import gen_config, gen_module, make_encoder
from ..normalise import clone, compare, rules_for
from ..roundtrip import describe
from ..textrun import load
from .c08 import assignments

CHECK = "C07"
RULE = (
    "t0 = grammar-generated default-dialect text with free spelling and "
    "layout (incl. loader-only values: empty-value placeholders, leap-second "
    "strings, units on sequences, mixed-case keywords, quoted value-like "
    "strings, folded multi-line strings), every tests/data label, and "
    "token-deleted variants that still load, and texts written by the four "
    "encoders (random options) from generated modules; x 4 encoders (default and "
    "random options). distinct = (source id, encoder, options); non-trivial "
    "= the encoder accepted the module"
)
DIALECTS = ("PVL", "ODL", "PDS3", "ISIS")


def nshards(tier):
    return 16


def tokens_outside_quotes(text):
    """Token stream of an encoder output with whitespace normalised and the
    elements of every {...} sorted (sets have no order)."""
    toks = re.findall(r'"[^"]*"|\'[^\']*\'|<[^>]*>|[(){},;=]|[^\s(){},;=<"\']+',
                      text)

    def parse(i, close):
        items, cur = [], []
        while i < len(toks):
            t = toks[i]
            if t in ("(", "{"):
                sub, i = parse(i + 1, ")" if t == "(" else "}")
                cur.append(sub)
                continue
            if t == close:
                items.append(cur)
                return ((close, items), i + 1)
            if t == "," and close is not None:
                items.append(cur)
                cur = []
            else:
                cur.append(t)
            i += 1
        items.append(cur)
        return ((None, items), i)

    def canon(node):
        close, items = node
        parts = []
        for it in items:
            parts.append(" ".join(canon(x) if isinstance(x, tuple) else x
                                  for x in it))
        if close == "}":
            parts.sort()
            return "{" + ", ".join(parts) + "}"
        if close == ")":
            return "(" + ", ".join(parts) + ")"
        return " ".join(parts)

    tree, _ = parse(0, None)
    return canon(tree)


def set_order_insensitive(t):
    """tokens_outside_quotes, with white-space runs inside quotes read as one
    blank: writing the elements of a set in another order also moves the line
    breaks inside wrapped text strings."""
    t = re.sub(r'"[^"]*"|\'[^\']*\'', lambda m: re.sub(r"\s+", " ", m.group(0)), t)
    return tokens_outside_quotes(t)


def cycle(rec, pvl, t0, src, wit0, rng):
    st, m1 = load(pvl, "default", t0, parser=pvl.parser.OmniParser())
    if st != "ok":
        rec.count("t0_not_loadable")
        return
    rec.count("t0_loaded")
    kinds = []
    flat = repr(m1)
    if "EmptyValueAtLine" in flat:
        kinds.append("empty-value-placeholder")
    if re.search(r":60(\.\d+)?Z?'", flat):
        kinds.append("leap-second-string")
    if kinds:
        for k in kinds:
            rec.count(f"loader_only[{k}]")
    for dialect in DIALECTS:
        cfg = {} if rng.random() < 0.4 else gen_config(rng, dialect)
        wit = dict(wit0)
        wit.update({"dialect": dialect, "cfg": cfg, "t0": t0[:1500]})
        rec.case((src, dialect, repr(sorted(cfg.items()))), True,
                 sample={"source": src, "dialect": dialect, "t0": t0[:300]}
                 if rec.c["evaluations"] % 2011 == 0 else None)
        feats = {"source": src.split(":")[0]}
        try:
            t1 = make_encoder(pvl, dialect, cfg).encode(clone(m1))
        except (ValueError, TypeError):
            rec.count(f"refused[{dialect}]")
            continue
        except Exception as e:
            rec.violation(CHECK, dialect, "encode-raised-other",
                          {**feats, "exc": type(e).__name__}, wit, repr(e)[:200])
            continue
        rec.count(f"accepted[{dialect}]")
        st2, m2 = load(pvl, "default", t1, parser=pvl.parser.OmniParser())
        wit["t1"] = t1[:1500]
        if st2 != "ok":
            rec.violation(CHECK, dialect, "dumped-text-does-not-load",
                          {**feats, "lib": st2, **_dash_block_features(m1, t1)},
                          wit, f"{st2}: {m2}"[:300])
            continue
        diff = compare(m1, m2, rules_for(dialect, "default"))
        if diff:
            f2 = dict(feats)
            if len(diff) == 4:      # a leaf: say what kind of value changed into what
                f2["value"] = describe(diff[2], dialect)
                f2["became"] = type(diff[3]).__name__
                if isinstance(diff[2], (list, set, frozenset)) or \
                        type(diff[2]).__name__ == "Quantity":
                    # inside a sequence / set / quantity: is a string that
                    # looks like a zoned time the ONLY thing that changed?
                    a, b = _neutral_pair(diff[2], diff[3], dialect)
                    if a != diff[2] and compare(a, b, rules_for(dialect, "default")) is None:
                        f2["value"] = "str:time-with-zone-offset-like"
                        f2["became"] = "time"
                        f2["inside"] = type(diff[2]).__name__
            else:
                f2.update(_dash_block_features(m1, t1))
            rec.violation(CHECK, dialect, "second-load-differs", f2, wit,
                          f"{diff[0]}: {diff[1]}"[:300])
            continue
        if getattr(m2, "errors", None):
            rec.violation(CHECK, dialect, "second-load-has-errors", feats, wit,
                          f"errors={m2.errors}")
            continue
        try:
            t2 = make_encoder(pvl, dialect, cfg).encode(clone(m2))
        except Exception as e:
            rec.violation(CHECK, dialect, "second-dump-raised",
                          {**feats, "exc": type(e).__name__}, wit, repr(e)[:200])
            continue
        if t1 != t2:
            # allowed: the elements of a set in another order (and the line
            # breaks that moves); not allowed: the same order laid out differently
            same = "{" in t1 and set_order_insensitive(t1) == set_order_insensitive(t2) \
                and re.sub(r"\s+", " ", t1) != re.sub(r"\s+", " ", t2)
            if not same:
                wit["t2"] = t2[:1500]
                rec.violation(CHECK, dialect, "second-dump-differs",
                              {**feats, "has_set": "{" in t1}, wit,
                              _first_diff(t1, t2))
                continue
            rec.count("equal_up_to_set_order")
        rec.count(f"stable[{dialect}]")


def _neutral_pair(orig, loaded, dialect):
    """Both sides with one marker wherever a string that looks like a zoned
    time (original) stands where a zoned time was read back (loaded); lists
    and quantities are walked in parallel, sets element-wise by the old rule."""
    import datetime as dt
    from ..roundtrip import describe_str
    if isinstance(orig, list) and isinstance(loaded, list) and len(orig) == len(loaded):
        pairs = [_neutral_pair(a, b, dialect) for a, b in zip(orig, loaded)]
        return [p[0] for p in pairs], [p[1] for p in pairs]
    if type(orig).__name__ == "Quantity" and type(loaded).__name__ == "Quantity":
        a, b = _neutral_pair(orig.value, loaded.value, dialect)
        return type(orig)(a, orig.units), type(loaded)(b, loaded.units)
    if isinstance(orig, (set, frozenset)) and isinstance(loaded, (set, frozenset)):
        return _neutralise(orig, dialect, True), _neutralise(loaded, dialect, False)
    if isinstance(orig, str) and isinstance(loaded, (dt.time, dt.datetime)) and \
            describe_str(orig, dialect) == "str:time-with-zone-offset-like" and \
            loaded.tzinfo is not None and loaded.utcoffset() is not None and \
            loaded.utcoffset().total_seconds() != 0:
        return "\0ZONED", "\0ZONED"
    return orig, loaded


def _neutralise(x, dialect, orig_side):
    """Strings that look like a time with a zone offset (original side) and
    zoned times (loaded side) replaced by one marker."""
    import datetime as dt
    from ..roundtrip import describe_str
    if isinstance(x, list):
        return [_neutralise(v, dialect, orig_side) for v in x]
    if isinstance(x, (set, frozenset)):
        return type(x)(_neutralise(v, dialect, orig_side) for v in x)
    if type(x).__name__ == "Quantity":
        return type(x)(_neutralise(x.value, dialect, orig_side), x.units)
    if orig_side and isinstance(x, str) and \
            describe_str(x, dialect) == "str:time-with-zone-offset-like":
        return "\0ZONED"
    if not orig_side and isinstance(x, (dt.time, dt.datetime)) and \
            x.tzinfo is not None and x.utcoffset() is not None and \
            x.utcoffset().total_seconds() != 0:
        return "\0ZONED"
    return x


def _dash_block_features(m1, t1):
    """Input features for the listed dash-continuation mechanism: the module
    has a block whose name ends in '-', and the encoder wrote that name as the
    last thing on a line (no statement delimiter behind it)."""
    names = []

    def walk(c):
        for k, v in list(c):
            if isinstance(v, dict):
                names.append(k)
                walk(v)
    walk(m1)
    dash = [k for k in names if k.endswith("-")]
    at_eol = any(re.search(r"=\s*" + re.escape(k) + r"\r?\n", t1) for k in dash)
    return {"block_name_ends_with_dash": bool(dash),
            "dash_name_at_end_of_line": at_eol}


def _first_diff(a, b):
    for i, (x, y) in enumerate(zip(a, b)):
        if x != y:
            return f"first difference at {i}: {a[max(0,i-30):i+30]!r} vs {b[max(0,i-30):i+30]!r}"
    return f"lengths {len(a)} vs {len(b)}"


def corpus(pvl):
    root = os.path.join(common.REPO, "tests", "data")
    out = []
    for dp, dn, fn in os.walk(root):
        for f in sorted(fn):
            p = os.path.join(dp, f)
            try:
                out.append((os.path.relpath(p, root), pvl.get_text_from(p)))
            except Exception:
                continue
    return out


def shard(i, n, tier, seed, rec, hb):
    pvl = common.import_pvl()
    total = 2400 if tier == "quick" else 250000
    for j in range(i, total, n):
        hb.beat()
        key = f"C07-{seed}-{j}"
        rng = random.Random(key)
        while True:
            doc = gt.gen_document(rng, "default", max_top=5)
            if not any(c == "seq-inside-set" for c, _ in doc.meta):
                break
        toks = doc.tokens
        if rng.random() < 0.35:
            asg = assignments(doc)
            if asg:
                drop = set()
                for sid, vals, eqi in rng.sample(asg, rng.randint(1, min(3, len(asg)))):
                    drop.update(vals)
                toks = [t for k, t in enumerate(toks) if k not in drop]
        t0 = gt.render(toks, gt.gen_layout(rng, toks, "default", "wild"))
        cycle(rec, pvl, t0, f"generated:{key}", {"seed": key}, rng)
    # texts written by the encoders themselves (any dialect, any options) from
    # generated modules: load with the default loader, re-encode in every
    # dialect (cross-dialect chains; values the text generator does not spell:
    # zoned times, quantities around strings, frozen sets of mixed types ...)
    total = 1600 if tier == "quick" else 160000
    for j in range(i, total, n):
        hb.beat()
        key = f"C07-enc-{seed}-{j}"
        rng = random.Random(key)
        da = rng.choice(DIALECTS)
        cfga = gen_config(rng, da)
        gm = gen_module(rng, da, cfga["width"], pvl.collections, max_depth=2)
        if any(cls in ("name:not-a-name", "name:keyword") for _, cls, _ in gm.names):
            # (the encoders do not vet PVL/ISIS parameter names: an empty name or
            # one with a blank or '=' in it gives text that is no label at all)
            rec.count("encoder_source_skipped_unwritable_name")
            continue
        try:
            with common.cpu_limit(60):
                t0 = make_encoder(pvl, da, cfga).encode(gm.module)
        except (ValueError, TypeError):
            rec.count("encoder_source_refused")
            continue
        except common.CaseTimeout:
            rec.inconc(f"CPU budget exceeded on case {key}")
            continue
        except Exception:
            rec.count("encoder_source_raised_other")   # C01's subject
            continue
        rec.count(f"encoder_source[{da}]")
        cycle(rec, pvl, t0, f"encoded-{da}:{key}", {"seed": key, "written_by": da,
                                                    "cfg_written": cfga}, rng)
    # a word that is white space to Python's text wrapping but not to the
    # dialect (or a dash), slid along a string that has to be wrapped, so that
    # it comes to stand at the end and at the start of a line at some point
    filler = " ".join(["record"] * 14)
    k = 0
    for sep in ("\x1c", "\x1d", "\x1e", "\x1f", "\xa0", "-", "a-", "\x1c\x1f"):
        for pad in range(1, 40):
            k += 1
            if k % n != i:
                continue
            hb.beat()
            t0 = f'note = "{"x" * pad} {sep} {filler} {sep} {filler}"\nEND\n'
            rec.count("wrap_hazard_texts")
            cycle(rec, pvl, t0, f"wrap-hazard:{sep!r}:{pad}", {"pad": pad},
                  random.Random(f"C07-wrap-{seed}-{k}"))
    # a string that ends in a dash, with units behind it, in statements whose
    # length is slid past the wrap column (the break may fall between the two)
    for pad in range(30, 80):
        k += 1
        if k % n != i:
            continue
        hb.beat()
        for t0 in (f"{'n' * pad} = transect-17- <site id>\nEND\n",
                   "a = (" + ", ".join(f"seg{j:02d}- <km>" for j in range(pad % 12 + 2))
                   + ")\nEND\n",
                   f"GROUP = g\n  {'n' * pad} = (1, v- <m>, 'it''s-' <m>)\nEND_GROUP\nEND\n"):
            rec.count("wrap_hazard_texts")
            cycle(rec, pvl, t0, f"wrap-hazard:dash-units:{pad}", {"pad": pad},
                  random.Random(f"C07-wrapdash-{seed}-{k}"))
    files = corpus(pvl)
    for k, (name, text) in enumerate(files):
        if k % n != i:
            continue
        hb.beat()
        rng = random.Random(f"C07-corpus-{seed}-{name}")
        cycle(rec, pvl, text, f"corpus:{name}", {"file": name}, rng)
        rec.count("corpus_files")
        # line-deleted variants that still load
        lines = text.split("\n")
        for rep in range(3 if tier == "quick" else 30):
            if len(lines) < 3:
                break
            cut = rng.randrange(len(lines))
            variant = "\n".join(lines[:cut] + lines[cut + 1:])
            cycle(rec, pvl, variant, f"corpus-mutation:{name}:{cut}",
                  {"file": name, "deleted_line": cut}, rng)


def finish_kwargs(rec, tier):
    req = ["t0_loaded", "corpus_files", "wrap_hazard_texts", "loader_only[empty-value-placeholder]",
           "loader_only[leap-second-string]"]
    req += [f"stable[{d}]" for d in DIALECTS]
    req += [f"encoder_source[{d}]" for d in DIALECTS]
    return dict(required_counters=req,
                assumptions=["normalisation relation of DESIGN 3.7; set element "
                             "order canonicalised by a token-level comparison"])


def replay(data):
    pvl = common.import_pvl()
    rec = common.Rec()
    for w in data["witnesses"]:
        w = w["witness"]
        print("---", {k: w[k] for k in w if k not in ("t0", "t1", "t2")})
        print("t0:", repr(w["t0"][:400]))
        cycle(rec, pvl, w["t0"], "replay", {}, random.Random(0))
    for ent in rec.viol.values():
        print("VIOLATES:", ent["record"], ent["witnesses"][0]["message"][:300])
    return 1 if rec.viol else 0
