"""C13 - dumping is repeatable and does not damage its argument.

Snapshot monitor: deep structural snapshot of the caller's object before and
after each of two dumps; the two texts must be identical; the snapshot may
differ only by the PDS3 encoder's documented in-place change of a top-level
PVLGroup into a PVLObject holding the same items at the same position."""
import io
import random

from .. import common
from ..gen_values import (DIALECTS, gen_module, gen_config, make_encoder, gen_value,
                          strict_parser)
from ..normalise import snapshot

CHECK = "C13"
OWN_HISTORY = True   # after the pristine copy was forked
RULE = (
    "random modules (C01 generator) plus modules biased towards the PDS3 "
    "in-place conversion trigger (top level with groups and no object, the "
    "group's name duplicated before/after it, groups that are not valid PDS "
    "groups, nested levels), plain dict arguments; x 4 encoders x random "
    "options; each dumped twice through a reused encoder and once through "
    "pvl.dumps; a fifth as many modules in the multidict-based containers of "
    "pvl.new through pvl.new.dumps. distinct = (dialect, case seed); non-trivial = all"
)


def nshards(tier):
    return 16


def gen_trigger(rng, col, dialect):
    """Top level with >=1 group, usually no object, duplicate names around."""
    m = col.PVLModule()
    names = ["g", "k", "G2", "ptr", "n"]

    def group(valid):
        g = col.PVLGroup()
        g.append("a", rng.randint(0, 9))
        if not valid:
            r = rng.random()
            if r < 0.3:
                g.append("a", 2)                      # repeated key
            elif r < 0.6:
                g.append("inner", col.PVLGroup(x=1))  # nested block
            else:
                g.append("^PTR", 5)                   # data location pointer
        return g

    for _ in range(rng.randint(1, 6)):
        r = rng.random()
        name = rng.choice(names)
        if r < 0.45:
            m.append(name, group(rng.random() < 0.5))
        elif r < 0.55:
            o = col.PVLObject()
            o.append("g", group(rng.random() < 0.5))
            o.append("g", group(rng.random() < 0.5))
            m.append(name, o if rng.random() < 0.3 else group(True))
        else:
            m.append(name, rng.choice((1, "x", 2.5, [1, 2], None)))
    return m


def allowed_change(before, after, dialect):
    """Snapshots equal, or (PDS3) top-level groups became objects only."""
    if before == after:
        return True, 0
    if dialect != "PDS3":
        return False, 0
    if before[0] != after[0] or len(before[1]) != len(after[1]):
        return False, 0
    conv = 0
    for (kb, vb), (ka, va) in zip(before[1], after[1]):
        if kb != ka:
            return False, 0
        if vb == va:
            continue
        if vb[0] == "PVLGroup" and va[0] == "PVLObject" and vb[1] == va[1]:
            conv += 1
            continue
        return False, 0
    return True, conv


_INTERFERENCE = {}


class UserFloat(float):
    """A caller's own value class (a float that also carries units).  Some
    OTHER encoder object may be told to treat it as a quantity
    (add_quantity_cls is per encoder object); the encoder under watch was not."""

    def __new__(cls, value, units="m"):
        self = float.__new__(cls, value)
        self.units = units
        return self

    @property
    def value(self):
        return float(self)

    def __repr__(self):
        return f"UserFloat({float(self)!r}, {self.units!r})"


class UserThing:
    """A caller's class no encoder knows anything about (TypeError expected)."""

    def __init__(self, value, units="m"):
        self.value, self.units = value, units

    def __repr__(self):
        return f"UserThing({self.value!r}, {self.units!r})"


def interfere(pvl, dialect):
    col = pvl.collections
    if "m" not in _INTERFERENCE:
        m = col.PVLModule()
        m.append("seq", ["word-%d and more" % i for i in range(30)] + [1.5, -2])
        m.append("text", "a long text string " * 12)
        m.append("q", col.Quantity(3, "m / s"))
        m.append("grp", col.PVLGroup([("inner", ["x y"] * 20)]))
        m.append("obj", col.PVLObject([("k", 1)]))
        _INTERFERENCE["m"] = m
        # characters that only some dialects allow: what one dialect accepted
        # must not make another dialect accept it later
        _INTERFERENCE["latin"] = col.PVLModule([("s", "caf\xe9 \xb5m \xff"),
                                                ("q", col.Quantity(1, "\xb5m"))])
        _INTERFERENCE["ctrl"] = col.PVLModule([("s", "a\x07b \x01 \x1b \x7f")])
    for other in DIALECTS:
        if other == dialect:
            continue
        for which in ("m", "latin", "ctrl"):
            try:
                make_encoder(pvl, other, {"width": 40}).encode(_INTERFERENCE[which])
            except Exception:
                pass
    # other encoder objects (another dialect's and a second one of this
    # dialect) learn about the caller's value classes; that is their business
    for d in (DIALECTS[(DIALECTS.index(dialect) + 1) % 4], dialect):
        try:
            e2 = make_encoder(pvl, d, {})
            e2.add_quantity_cls(UserFloat, "value", "units")
            e2.add_quantity_cls(UserThing, "value", "units")
            e2.encode(pvl.collections.PVLModule([("u", UserFloat(1.5, "s")),
                                                 ("t", UserThing(2, "m"))]))
        except Exception:
            pass


def case_twin(x, how):
    """A structural copy of *x* with every string value re-cased."""
    if isinstance(x, dict) and hasattr(x, "append"):
        out = type(x)()
        for k, v in list(x):
            out.append(k, case_twin(v, how))
        return out
    if type(x) is dict:
        return {k: case_twin(v, how) for k, v in x.items()}
    if isinstance(x, list):
        return [case_twin(v, how) for v in x]
    if isinstance(x, (set, frozenset)):
        return type(x)(case_twin(v, how) for v in x)
    if type(x).__name__ == "Quantity":
        return type(x)(case_twin(x.value, how), x.units)
    if type(x) is str:
        return how(x)
    return x


def one(rec, pvl, dialect, cfg, module, wit, via):
    s0 = snapshot(module)
    texts = []
    try:
        enc = make_encoder(pvl, dialect, cfg)
    except Exception as e:
        rec.inconc(f"encoder construction failed: {e!r}")
        return
    snaps = [s0]
    for call in range(3):
        if call == 1:
            # between the first and the second dump the process does other
            # work: long labels are written in the OTHER dialects (state shared
            # between classes must not change what this dump returns)
            interfere(pvl, dialect)
            # ... and the SAME encoder instance writes another module through
            # pvl.dumps / pvl.dump with other settings given alongside it
            other = _INTERFERENCE["m"]
            og = strict_parser(pvl, "ODL" if dialect != "ODL" else "PVL")
            for kw in ({"indent": 5, "width": 33, "aggregation_end": False},
                       {"grammar": og.grammar, "decoder": og.decoder}):
                try:
                    pvl.dumps(other, encoder=enc, **kw)
                except Exception:
                    pass
                try:
                    pvl.dump(other, io.StringIO(), encoder=enc, **kw)
                except Exception:
                    pass
            # ... and a twin of the module under watch in which every string is
            # spelled in another letter case (what the encoder learnt about one
            # spelling says nothing about the other)
            for how in (str.swapcase, str.lower, str.upper):
                try:
                    enc.encode(case_twin(module, how))
                except Exception:
                    pass
            rec.count("same_instance_used_for_another_module_with_other_settings")
        try:
            if via == "dumps" and call >= 1:
                t = pvl.dumps(module, encoder=make_encoder(pvl, dialect, cfg))
            else:
                t = enc.encode(module)
        except (ValueError, TypeError) as e:
            t = ("refused", type(e).__name__)
        except Exception as e:
            t = ("raised", type(e).__name__)
        texts.append(t)
        snaps.append(snapshot(module))
    rec.count("dump_pairs")
    feats = {"top_level_groups": any(v[0] == "PVLGroup" for _, v in s0[1]),
             "duplicate_top_level_names": len({k for k, _ in s0[1]}) != len(s0[1]),
             "plain_dict_argument": s0[0] == "dict"}
    total_conv = 0
    for idx in (1, 2, 3):
        ok, conv = allowed_change(snaps[idx - 1], snaps[idx], dialect)
        total_conv += conv
        # the documented in-place change: when the top level has groups and no
        # object, ONE group (the first that is no valid PDS group, else the
        # first) becomes an object - so at most one per call, and none once the
        # top level has an object
        had_object = any(isinstance(v, tuple) and v and v[0] == "PVLObject"
                         for _, v in snaps[idx - 1][1]) \
            if isinstance(snaps[idx - 1][1], tuple) else False
        if ok and (conv > 1 or (conv == 1 and had_object)):
            rec.violation(CHECK, dialect, "argument-damaged-by-dump",
                          {**feats, "call": idx, "groups_converted_in_one_call": conv,
                           "top_level_had_an_object": had_object},
                          {**wit, "before": repr(snaps[idx - 1])[:700],
                           "after": repr(snaps[idx])[:700]},
                          f"call {idx} converted {conv} top-level groups in place "
                          f"(documented: one, and only when there is no object)")
            return
        if not ok:
            rec.violation(CHECK, dialect, "argument-damaged-by-dump",
                          {**feats, "call": idx},
                          {**wit, "before": repr(snaps[idx - 1])[:700],
                           "after": repr(snaps[idx])[:700]},
                          f"call {idx}: {snaps[idx-1]!r:.300} -> {snaps[idx]!r:.300}")
            return
    if total_conv:
        rec.count("in_place_group_to_object_conversions", total_conv)
    for later in (1, 2):
        if texts[0] != texts[later]:
            rec.violation(CHECK, dialect, "second-dump-differs",
                          {**feats, "first": "text" if isinstance(texts[0], str) else texts[0][0],
                           "second": "text" if isinstance(texts[later], str)
                           else texts[later][0]},
                          {**wit, "t1": texts[0], "t2": texts[later], "call": later + 1},
                          f"{texts[0]!r:.300} != {texts[later]!r:.300}")
            break
    if isinstance(texts[0], str):
        rec.count("texts_compared")
    else:
        rec.count("refusals_compared")
    return texts


def regular_case(pvl, dialect, key):
    """(cfg, module, shape, via) of the case *key* - deterministic, so that a
    pristine process can rebuild exactly the same module."""
    rng = random.Random(key)
    col = pvl.collections
    cfg = gen_config(rng, dialect)
    r = rng.random()
    if r < 0.08:
        # a module every encoder accepts and has to wrap (long text strings,
        # long sequences of words and quoted strings)
        cfg, module = build_case(pvl, dialect, key + "-wrap")
        return cfg, module, "wrap-heavy", rng.choice(("encode", "dumps"))
    if r < 0.45:
        module, shape = gen_module(rng, dialect, cfg["width"], col).module, "random"
    elif r < 0.9:
        module, shape = gen_trigger(rng, col, dialect), "trigger"
    else:
        if rng.random() < 0.5:
            module = {"a": 1, "g": {"x": [1, 2], "y": "t"}, "s": "two words"}
        else:
            # a plain dict whose only blocks are groups: the PDS3 encoder has
            # to convert one in the caller's dict
            module = {"a": 1, "g": col.PVLGroup([("x", [1, 2]), ("y", "t")]),
                      "s": "two words", "h": col.PVLGroup([("z", 1)])}
        shape = "plain-dict"
    via = rng.choice(("encode", "dumps"))
    if rng.random() < 0.12 and hasattr(module, "append"):
        # an instance of a class of the caller's own
        module.append("user_value", UserFloat(2.5, "km") if rng.random() < 0.6
                      else UserThing(7, "s"))
        shape += "+user-class"
    return cfg, module, shape, via


def first_dump(pvl, dialect, key):
    """What a process that has done nothing else gets for the case *key*."""
    cfg, module, shape, via = regular_case(pvl, dialect, key)
    try:
        return make_encoder(pvl, dialect, cfg).encode(module)
    except (ValueError, TypeError) as e:
        return ("refused", type(e).__name__)
    except Exception as e:
        return ("raised", type(e).__name__)


def case(rec, pvl, dialect, key, pristine=None):
    cfg, module, shape, via = regular_case(pvl, dialect, key)
    wit = {"dialect": dialect, "cfg": cfg, "seed": key, "shape": shape, "via": via,
           "module": repr(module)[:900]}
    rec.count(f"shape[{shape.split('+')[0]}]")
    if "+" in shape:
        rec.count("modules_with_a_value_of_a_user_class")
    texts = one(rec, pvl, dialect, cfg, module, wit, via)
    rec.case((dialect, key), True,
             sample=wit if rec.c["evaluations"] % 997 == 0 else None)
    if pristine is not None and texts:
        ref = pristine.ask((dialect, key))
        ref = tuple(ref) if isinstance(ref, (list, tuple)) else ref
        rec.count("first_dumps_compared_with_a_pristine_process")
        if ref != texts[0]:
            kind = lambda t: "text" if isinstance(t, str) else t[0]  # noqa: E731
            rec.violation(CHECK, dialect, "dump-depends-on-process-history",
                          {"here": kind(texts[0]), "pristine": kind(ref)},
                          {**wit, "in_this_process": repr(texts[0])[:600],
                           "in_a_pristine_process": repr(ref)[:600]},
                          "the same module and options give another result in a "
                          "process that has written other labels before")


def to_new(col, x):
    """The same content in the multidict-based containers of pvl.new."""
    names = {"PVLModule": col.PVLModuleNew, "PVLGroup": col.PVLGroupNew,
             "PVLObject": col.PVLObjectNew}
    if type(x).__name__ in names:
        c = names[type(x).__name__]()
        for k, v in list(x):
            c.append(k, to_new(col, v))
        return c
    return x


def snap_new(x):
    if hasattr(x, "getall") and not isinstance(x, dict):
        return (type(x).__name__.replace("New", ""),
                tuple((k, snap_new(v)) for k, v in list(x.items())))
    return snapshot(x)


def new_case(rec, pvl, dialect, key):
    """The containers of pvl.new (module, groups and objects built on the
    third-party multidict) are modules too: same monitor, dumped through
    pvl.new.dumps (PDS3, no further argument) or an encoder that was given the
    new group and object classes."""
    import pvl.new as new
    rng = random.Random(key)
    col = pvl.collections
    cfg = gen_config(rng, dialect)
    plain = gen_trigger(rng, col, dialect) if rng.random() < 0.7 else \
        gen_module(rng, dialect, cfg["width"], col, plain_names_only=True).module
    module = to_new(col, plain)
    noargs = dialect == "PDS3" and rng.random() < 0.5
    wit = {"dialect": dialect, "cfg": {} if noargs else cfg, "seed": key,
           "containers": "pvl.new", "via": "pvl.new.dumps(m)" if noargs else
           "pvl.new.dumps(m, encoder=E(group_class=PVLGroupNew, ...))",
           "module": repr(plain)[:700]}
    rec.case((dialect, key, "new"), True)
    rec.count("new_container_cases")
    snaps, texts = [snap_new(module)], []
    for call in range(3):
        try:
            if noargs:
                t = new.dumps(module)
            else:
                E = pvl.encoder
                cls = {"PVL": E.PVLEncoder, "ODL": E.ODLEncoder,
                       "PDS3": E.PDSLabelEncoder, "ISIS": E.ISISEncoder}[dialect]
                t = new.dumps(module, encoder=cls(group_class=col.PVLGroupNew,
                                                  object_class=col.PVLObjectNew, **cfg))
        except (ValueError, TypeError) as e:
            t = ("refused", type(e).__name__)
        except Exception as e:
            t = ("raised", type(e).__name__, str(e)[:120])
        texts.append(t)
        snaps.append(snap_new(module))
    feats = {"containers": "pvl.new",
             "top_level_groups": any(v[0] == "PVLGroup" for _, v in snaps[0][1]
                                     if isinstance(v, tuple))}
    for idx in (1, 2, 3):
        ok, conv = allowed_change(snaps[idx - 1], snaps[idx], dialect)
        if conv:
            rec.count("new_container_conversions", conv)
        if not ok:
            rec.violation(CHECK, dialect, "argument-damaged-by-dump",
                          {**feats, "call": idx},
                          {**wit, "before": repr(snaps[idx - 1])[:700],
                           "after": repr(snaps[idx])[:700]},
                          f"call {idx}: {snaps[idx-1]!r:.300} -> {snaps[idx]!r:.300}")
            return
    for later in (1, 2):
        if texts[0] != texts[later]:
            kind = lambda t: "text" if isinstance(t, str) else t[0]  # noqa: E731
            rec.violation(CHECK, dialect, "second-dump-differs",
                          {**feats, "first": kind(texts[0]), "second": kind(texts[later])},
                          {**wit, "t1": texts[0], "t2": texts[later], "call": later + 1},
                          f"{texts[0]!r:.300} != {texts[later]!r:.300}")
            return
    if isinstance(texts[0], str):
        rec.count("new_container_texts_compared")
    elif texts[0][0] == "raised":
        rec.violation(CHECK, dialect, "dump-raised-not-ValueError-TypeError",
                      {**feats, "exc": texts[0][1]}, wit, str(texts[0]))


def build_case(pvl, dialect, key):
    """A module that every encoder accepts and has to wrap: long text
    strings, long sequences of words and quoted strings, quantities."""
    rng = random.Random(key)
    col = pvl.collections
    cfg = gen_config(rng, dialect)
    cfg["width"] = rng.choice((40, 60, 80))
    words = ["alpha", "Beta", "GAMMA", "orbit", "Mars", "two-part", "x1"]
    m = col.PVLModule()
    m.append("TEXT", " ".join(rng.choice(words) for _ in range(rng.randint(12, 30))))
    m.append("SEQ", [rng.choice(words) for _ in range(rng.randint(8, 20))])
    m.append("STRINGS", [f"{rng.choice(words)} {rng.choice(words)}"
                         for _ in range(rng.randint(4, 10))])
    m.append("Q", col.Quantity(rng.randint(1, 9), "m / s"))
    g = col.PVLObject()
    g.append("NOTE", "it's " + " ".join(rng.choice(words) for _ in range(14)))
    g.append("N", rng.randint(0, 99))
    m.append("OBJ", g)
    return cfg, m


def texts_for(pvl, dialect, keys):
    out = []
    for key in keys:
        cfg, module = build_case(pvl, dialect, key)
        try:
            out.append(make_encoder(pvl, dialect, cfg).encode(module))
        except (ValueError, TypeError) as e:
            out.append("refused:" + type(e).__name__)
        except Exception as e:
            out.append("raised:" + type(e).__name__)
    return out


def pristine_process_reference(rec, pvl, dialect, seed, tier):
    """The same dumps in a process that has done nothing else and only ever
    used this one dialect must give the same text as in this worker, which has
    already written labels in all four dialects (state shared between classes
    or kept at module level would show here)."""
    import json
    import subprocess
    keys = [f"C13-ref-{seed}-{dialect}-{j}" for j in range(60 if tier == "quick" else 600)]
    here = texts_for(pvl, dialect, keys)
    code = ("import sys, json; sys.path.insert(0, %r); from vlib import common; "
            "pvl = common.import_pvl(); from vlib.props import c13; "
            "print(json.dumps(c13.texts_for(pvl, sys.argv[1], sys.argv[2:])))"
            % common.VERIF)
    try:
        r = subprocess.run([common.PY, "-c", code, dialect] + keys, capture_output=True,
                           text=True, timeout=900, cwd=common.VERIF)
        there = json.loads(r.stdout)
    except Exception as e:
        rec.inconc(f"pristine reference process failed: {e!r}")
        return
    for key, a, b in zip(keys, here, there):
        rec.count("pristine_reference_comparisons")
        rec.case(("pristine", dialect, key), True)
        if a != b:
            rec.violation(CHECK, dialect, "dump-depends-on-process-history", {},
                          {"dialect": dialect, "seed": key, "in_this_process": a[:600],
                           "in_a_pristine_process": b[:600]},
                          "same module, same encoder options, different text")
            return


BORDERLINE = (
    "1999/12/31T23:59", "1999/365T12:00", "1999/12/31", "31-12-1999",
    "1999-12-31 23:59", "1999.12.31", "12h30", "T23:59", "1999-12-31T", "1999W52",
    "19991231T2359", "2001-001T1200", "24:00", "12:60", "12:00+05", "1e", "0x1F",
    "1_000", "+", "-", "1-", "N/A", "n/a", "Null.", "TRUE.", "#ff", "a#b", "16#FF",
    "16#FF#x", "2#2#", "+2#-1#", "1.2.3", "1,5", ".", "..", "e5", "inf", "NaN",
    "-inf", "&ref", "^ptr", "a:b", "a::b", "a/b", "a\\b", "%", "@", "~", "`", "$1",
    "|", "!", "?", "[x]", "x*", "*/", "/*", "a+b", "C++", "R+G", "x-", "caf\xe9",
)


def borderline_strings(rec, pvl, i):
    """Strings near the border of the quoting decision, written by a worker
    that has done nothing yet, then again - by the same encoder object and by
    a fresh one - after the process has loaded and written labels in every
    dialect and configuration (vlib/prelude.py): same text (or same refusal)
    all three times."""
    from .. import prelude
    col = pvl.collections

    def dump(enc, s):
        try:
            return enc.encode(col.PVLModule([("k", s), ("seq", [s, 1])]))
        except (ValueError, TypeError) as e:
            return ("refused", type(e).__name__)
        except Exception as e:
            return ("raised", type(e).__name__)

    first, encs = {}, {}
    for dialect in DIALECTS:
        encs[dialect] = make_encoder(pvl, dialect, {})
        for s in BORDERLINE:
            first[dialect, s] = dump(encs[dialect], s)
    prelude.hostile_history(pvl, 2 * i + 1)
    try:
        pvl.loads("a = 1\nb = 2000-01-01T12:00\nc =\nEND\n")
        pvl.load(io.StringIO("GROUP = g\n x = 'y'\nEND_GROUP\n"))
    except Exception:
        pass
    for dialect in DIALECTS:
        for s in BORDERLINE:
            for who, enc in (("same-encoder-object", encs[dialect]),
                             ("fresh-encoder", make_encoder(pvl, dialect, {}))):
                again = dump(enc, s)
                rec.count("borderline_string_dumps_compared")
                rec.case((dialect, "borderline", s, who), True)
                if again != first[dialect, s]:
                    rec.violation(
                        CHECK, dialect, "dump-depends-on-process-history",
                        {"here": "text" if isinstance(again, str) else again[0],
                         "pristine": "text" if isinstance(first[dialect, s], str)
                         else first[dialect, s][0], "borderline_string": True},
                        {"dialect": dialect, "string": s, "encoder": who,
                         "before_any_other_call": repr(first[dialect, s])[:300],
                         "after_the_process_history": repr(again)[:300]},
                        f"{s!r}: {first[dialect, s]!r:.200} before, {again!r:.200} after "
                        f"loads and dumps in other dialects")


def shard(i, n, tier, seed, rec, hb):
    pvl = common.import_pvl()
    # forked before this worker has written anything
    pristine = common.Pristine(lambda req: first_dump(pvl, req[0], req[1]))
    if i % 4 == 0:
        borderline_strings(rec, pvl, i)
    # (the pristine copy exists now; this worker itself may have a past)
    from .. import prelude
    rec.count("workers_with_a_hostile_history"
              if prelude.hostile_history(pvl, i) or i % 4 == 0
              else "workers_starting_fresh")
    per = 4000 if tier == "quick" else 240000
    try:
        for dialect in common.rotated(DIALECTS, i):
            for j in range(i, per, n):
                hb.beat()
                # (thorough: every 8th case is compared with the pristine copy)
                use = pristine if tier == "quick" or (j // n) % 8 == 0 else None
                case(rec, pvl, dialect, f"C13-{seed}-{dialect}-{j}", use)
                if j % 5 == 0:
                    new_case(rec, pvl, dialect, f"C13-new-{seed}-{dialect}-{j}")
    finally:
        pristine.close()
    if i < len(DIALECTS):
        pristine_process_reference(rec, pvl, DIALECTS[i], seed, tier)


def finish_kwargs(rec, tier):
    return dict(required_counters=("dump_pairs", "texts_compared",
                                   "in_place_group_to_object_conversions",
                                   "shape[trigger]", "shape[plain-dict]",
                                   "pristine_reference_comparisons",
                                   "new_container_texts_compared",
                                   "modules_with_a_value_of_a_user_class",
                                   "new_container_conversions",
                                   "first_dumps_compared_with_a_pristine_process",
                                   "borderline_string_dumps_compared"))


def replay(data):
    pvl = common.import_pvl()
    rec = common.Rec()
    for w in data["witnesses"]:
        w = w["witness"]
        print("---", {k: w[k] for k in ("dialect", "cfg", "seed", "shape")})
        case(rec, pvl, w["dialect"], w["seed"])
    for ent in rec.viol.values():
        print("VIOLATES:", ent["record"], ent["witnesses"][0]["message"][:500])
    return 1 if rec.viol else 0
