"""C05 - ill-formed text is rejected, never silently truncated.

Workload: token-level fault injection (delete, duplicate, swap, replace,
truncate; 1-3 operations) on well-formed generated documents.
Monitors: (1) the reference recogniser decides the damaged token list and the
loader's outcome must agree; (2) trace laws on every load that returns:
'='-conservation and 'no module after an error was thrown into the lexer'."""
import random

from .. import common
from .. import gen_text as gt
from ..refmodel import recognise, OMNI
from ..textrun import load
from ..trace import traced_parser, trace_laws, Spin

CHECK = "C05"
RULE = (
    "well-formed generated documents (no float-words) damaged by 1-3 token "
    "operations at every position (quick: single damage at every position of "
    "each document plus sampled double/triple damage); rendered with single "
    "spaces / line breaks so token boundaries are exact; x 5 parser "
    "configurations; plus character-level damage (delete/insert/replace 1-2 "
    "characters) of generated documents and of the tests/data corpus, judged by "
    "the oracle-free trace laws only. distinct = (reader, doc seed, damage "
    "list); non-trivial "
    "= the damaged token list differs from the original"
)
G = gt


def nshards(tier):
    return 16


def replacement_pool():
    T = gt.Tok
    return [
        T(G.NAME, "zz", "param"), T(G.EQ, "="), T(G.VAL, "7", "int:plain", value=7),
        T(G.VAL, '"s"', "quoted:word", True, value="s"), T(G.LP, "("), T(G.RP, ")"),
        T(G.LB, "{"), T(G.RB, "}"), T(G.COMMA, ","), T(G.SEMI, ";"),
        T(G.UNITS, "<m>"), T(G.BEGIN, "GROUP", "group"),
        T(G.BEGIN, "OBJECT", "object"), T(G.BEGIN, "BEGIN_GROUP", "group"),
        T(G.BEGIN, "begin_object", "object"),
        T(G.ENDKW, "END_GROUP", "group"), T(G.ENDKW, "END_OBJECT", "object"),
        T(G.END, "END"),
        T(G.DAMAGED, '"abc', "open-double-quote"),
        T(G.DAMAGED, "'abc", "open-single-quote"),
        T(G.DAMAGED, "<m", "open-units"), T(G.DAMAGED, "/* c", "open-comment"),
        T(G.DAMAGED, "*/", "stray-comment-close"), T(G.DAMAGED, ">", "stray-gt"),
    ]


def apply_damage(toks, ops):
    toks = list(toks)
    for op in ops:
        k = op[0]
        if not toks:
            break
        i = op[1] % len(toks)
        if k == "delete":
            del toks[i]
        elif k == "duplicate":
            toks.insert(i, toks[i])
        elif k == "swap":
            if i + 1 < len(toks):
                toks[i], toks[i + 1] = toks[i + 1], toks[i]
        elif k == "replace":
            toks[i] = op[2]
        elif k == "truncate":
            toks = toks[:i]
    return toks


def render_plain(toks):
    out = []
    for a, b in zip(toks, toks[1:] + [None]):
        out.append(a.text)
        nl = " \n" if a.text.endswith("-") else "\n"   # (no dash continuation)
        if b is None:
            out.append(nl)
        elif b.kind in (G.NAME, G.BEGIN, G.ENDKW, G.END) and a.kind != G.EQ:
            out.append(nl)
        else:
            out.append(" ")
    return "".join(out)


def before_end(toks):
    """tokens up to (excluding) the first END"""
    for i, t in enumerate(toks):
        if t.kind == G.END:
            return toks[:i]
    return toks


def where_of(reason, toks):
    return "end-of-text" if "end-of-text" in reason or "left-open" in reason \
        or "unterminated" in reason else "inner"


def before_class(toks, idx):
    """What stands directly before the stray '=' at toks[idx]?"""
    if idx <= 0 or idx > len(toks):
        return "start-of-text"
    p = toks[idx - 1]
    if p.kind == G.VAL:
        c = (p.cls or "").split(":")[0]
        return {"int": "number", "real": "number", "based": "number",
                "temporal": "date-or-time", "quoted": "quoted-string",
                "keyword": "null-or-boolean", "unquoted": "unquoted-string"}.get(c, c)
    return {G.SEMI: "delimiter", G.RP: "closing-bracket", G.RB: "closing-bracket",
            G.UNITS: "units", G.NAME: "name", G.EQ: "equals", G.COMMA: "comma",
            G.LP: "opening-bracket", G.LB: "opening-bracket", G.BEGIN: "begin-keyword",
            G.ENDKW: "end-keyword", G.DAMAGED: "damaged-token"}.get(p.kind, p.kind)


def judge(rec, pvl, reader, toks, wit, holder):
    text = render_plain(toks)
    ref = recognise(toks, reader)
    # an opening quote / comment that some later token happens to close is
    # not an unterminated element at all: no verdict
    for i, t in enumerate(toks):
        if t.kind != G.DAMAGED:
            continue
        rest = "".join(x.text for x in toks[i + 1:])
        if (t.cls == "open-double-quote" and '"' in rest) or \
                (t.cls == "open-single-quote" and "'" in rest) or \
                (t.cls == "open-comment" and "*/" in rest) or \
                (t.cls == "open-units" and ">" in rest
                 and "<" not in rest[:rest.index(">")]):
            # (an opened units expression that runs into the '<' of a later one
            # is NOT ambiguous: no units expression may contain '<')
            ref = ("ambiguous", "opening delimiter closed by a later token", None)
            break
    rec.count(f"ref[{ref[0]}]")
    if ref[0] == "ambiguous":
        return
    parser = traced_parser(pvl, reader, holder)
    try:
        st, res = load(pvl, reader, text, parser=parser)
    except Spin as e:
        st, res = "Spin", e
    tr = holder.get("trace")
    family = "omni" if reader in OMNI else "strict"
    wit = dict(wit)
    wit["text"] = text
    rec.count(f"lib[{family}][{st if st in ('ok', 'LexerError', 'ParseError') else 'other'}]")
    if st == "timeout":
        rec.inconc(f"CPU budget exceeded on {text[:80]!r}")
        return
    if st == "ok" and tr is not None:
        for kind, detail in trace_laws(tr, res):
            rec.count("trace_law_violations")
            f_law = {"family": family, "ref": ref[0] if ref[0] == "ok" else ref[1]}
            if ref[0] == "ill" and ref[1] == "stray-token:EQ" and isinstance(ref[2], int):
                f_law["before_the_stray_equals"] = before_class(toks, ref[2])
            rec.violation(CHECK, reader, kind, f_law, wit, detail)
        rec.count("trace_laws_evaluated")
    if ref[0] == "ill":
        reason = ref[1]
        if st == "ok":
            f_ill = {"family": family, "ref": reason}
            if reason == "stray-token:EQ" and isinstance(ref[2], int):
                f_ill["before_the_stray_equals"] = before_class(toks, ref[2])
            rec.violation(CHECK, reader, "module-returned-for-ill-formed-text",
                          f_ill, wit,
                          f"ill-formed ({reason}) yet loader returned "
                          f"{[k for k, _ in list(res)]}")
        elif st not in ("LexerError", "ParseError"):
            rec.violation(CHECK, reader, "ill-formed-text-raises-undocumented-type",
                          {"family": family, "ref": reason, "lib": st}, wit,
                          f"{st}: {res}"[:200])
        else:
            rec.count("ill_formed_rejected_properly")
    else:
        tree, missing = ref[1], ref[2]
        if st == "ok":
            diff = gt.same_tree(tree, res)
            if diff:
                rec.violation(CHECK, reader, "well-formed-after-damage-misread",
                              {"family": family, "with_missing_values": bool(missing)},
                              wit, f"{diff[0]}: {diff[1]}"[:300])
            else:
                rec.count("well_formed_agree")
        elif st in ("LexerError", "ParseError"):
            rec.violation(CHECK, reader, "well-formed-after-damage-rejected",
                          {"family": family, "with_missing_values": bool(missing),
                           "lib": st}, wit, f"{st}: {res}"[:300])
        else:
            rec.violation(CHECK, reader, "well-formed-after-damage-raises-undocumented-type",
                          {"family": family, "lib": st}, wit, f"{st}: {res}"[:200])


def case(rec, pvl, reader, key, tier, holder):
    rng = random.Random(key)
    while True:
        doc = gt.gen_document(rng, reader, max_top=4)
        if not any(t.kind == G.VAL and (t.cls or "").startswith("unquoted:float")
                   for t in doc.tokens):
            break
    toks = doc.tokens
    pool = replacement_pool()
    if reader == "default":
        # lone surrogates are characters like any other to the permissive
        # grammar (they are what errors="surrogateescape" makes of binary
        # data): as a value, as a name, glued to other text
        T = gt.Tok
        pool += [T(G.VAL, "\ud800", "unquoted:surrogate", value="\ud800"),
                 T(G.VAL, "x\udc00y", "unquoted:surrogate", value="x\udc00y"),
                 T(G.NAME, "\udfff", "param")]
    n = len(toks)
    plans = []
    for i in range(n):
        op = rng.choice(("delete", "duplicate", "swap", "replace", "truncate"))
        plans.append([(op, i, rng.choice(pool))])
    extra = 6 if tier == "quick" else 20
    for _ in range(extra):
        k = rng.choice((2, 3))
        plans.append([(rng.choice(("delete", "duplicate", "swap", "replace",
                                   "truncate")), rng.randrange(n), rng.choice(pool))
                      for _ in range(k)])
    if reader == "ISIS":
        # the only thing wrong is a dialect rule: a block begun with another
        # dialect's spelling of the keyword (BEGIN_GROUP / BEGIN_OBJECT)
        for i, t in enumerate(toks):
            if t.kind == G.BEGIN:
                alt = rng.choice(("BEGIN_", "Begin_", "begin_")) + t.text
                plans.append([("replace", i, gt.Tok(G.BEGIN, alt, t.cls))])
                rec.count("other_dialects_begin_keyword_cases")
    # a missing value (the tolerated anomaly, C08) combined with one more
    # damage: the repair paths must not hide the second anomaly
    from .c08 import assignments
    asg = assignments(doc)
    combos = []
    if asg:
        for _ in range(4 if tier == "quick" else 12):
            sid, vals, eqi = rng.choice(asg)
            base = [t for k, t in enumerate(toks) if k not in set(vals)]
            if len(base) < 3:
                continue
            op = rng.choice(("truncate", "delete", "replace", "swap"))
            combos.append((base, [(op, rng.randrange(len(base)), rng.choice(pool))]))
    for base, ops in combos:
        dmg = apply_damage(base, ops)
        desc = [("missing-value", None, None)] + \
            [(o[0], o[1], o[2].text if o[0] == "replace" else None) for o in ops]
        rec.case((reader, key, repr(desc)), True)
        rec.count("damage[missing-value+other]")
        if dmg:
            judge(rec, pvl, reader, dmg, {"reader": reader, "seed": key,
                                          "damage": desc}, holder)
    for ops in plans:
        dmg = apply_damage(toks, ops)
        desc = [(o[0], o[1], o[2].text if o[0] == "replace" else None) for o in ops]
        nontrivial = [t.text for t in dmg] != [t.text for t in toks]
        rec.case((reader, key, repr(desc)), nontrivial,
                 sample={"reader": reader, "damage": desc,
                         "text": render_plain(dmg)[:300]}
                 if rec.c["evaluations"] % 4001 == 0 else None)
        rec.count(f"damage[{'+'.join(sorted({o[0] for o in ops}))}]")
        if not dmg:
            continue
        judge(rec, pvl, reader, dmg, {"reader": reader, "seed": key,
                                      "damage": desc}, holder)


CHAR_POOL = list("=(){},;<>'\"/*#-+ \n") + ["\x01", "\xe9", "END", "GROUP", " = ",
                                               "\ud800", " \udc00 ", "\n\udfff", "\xa0",
                                               "\x1c", "\u2028", "\ufeff", "\u0131"]


def char_damage_case(rec, pvl, reader, key, tier, holder, base_text=None):
    """Character-level damage (no recogniser oracle): every load that RETURNS
    must satisfy the three trace laws; loads that raise must raise the
    documented types."""
    rng = random.Random(key)
    if base_text is None:
        doc = gt.gen_document(rng, reader, max_top=4)
        base_text = gt.render(doc.tokens, gt.gen_layout(rng, doc.tokens, reader, "wild"))
    family = "omni" if reader in OMNI else "strict"
    for rep in range(12 if tier == "quick" else 40):
        t = base_text
        edits = []
        for _ in range(rng.choice((1, 1, 2))):
            if not t:
                break
            pos = rng.randrange(len(t) + 1)
            op = rng.choice(("delete", "insert", "replace"))
            if op == "delete" and pos < len(t):
                t = t[:pos] + t[pos + rng.choice((1, 1, 3)):]
            elif op == "insert":
                t = t[:pos] + rng.choice(CHAR_POOL) + t[pos:]
            elif pos < len(t):
                t = t[:pos] + rng.choice(CHAR_POOL) + t[pos + 1:]
            edits.append((op, pos))
        rec.case((reader, key, "char", rep), t != base_text)
        rec.count("char_damage_cases")
        wit = {"reader": reader, "seed": key, "damage": edits, "text": t}
        judge_by_laws(rec, pvl, reader, t, wit, holder, "char-level")


def _depth(text):
    d = m = 0
    for c in text:
        if c in "({":
            d += 1
            m = max(m, d)
        elif c in ")}":
            d -= 1
    return m


def judge_by_laws(rec, pvl, reader, t, wit, holder, ref):
    """No reference verdict for *t*: a load that returns must satisfy the
    trace laws, a load that raises must raise a documented type."""
    family = "omni" if reader in OMNI else "strict"
    parser = traced_parser(pvl, reader, holder)
    try:
        st, res = load(pvl, reader, t, parser=parser)
    except Spin as e:
        st, res = "Spin", e
    if st == "ok":
        rec.count("char_damage_returned" if ref == "char-level" else
                  "law_judged_returns[" + ref + "]")
        tr = holder.get("trace")
        for kind, detail in trace_laws(tr, res):
            rec.violation(CHECK, reader, kind, {"family": family, "ref": ref},
                          wit, detail)
    elif st == "RecursionError" and _depth(t) > 30:
        # beyond ordinary nesting depth (C06 states the exclusion)
        rec.count("deep_nesting_excluded")
    elif st not in ("LexerError", "ParseError", "timeout"):
        rec.violation(CHECK, reader, "ill-formed-text-raises-undocumented-type",
                      {"family": family, "ref": ref, "lib": st}, wit,
                      f"{st}: {res}"[:200])


EOF_HAZARDS = [
    # unterminated at the very end of the text (no line break behind it), the
    # last character being a delimiter of another kind
    "a = 1\nnote = \"they said 'hi'", "a = 1\nnote = 'say \"x\"", "note = \"x'", "n = '\"",
    "a = 1\nb = 2 /* c *", "a = 1 /* c /", "a = 1 /*", "a = 1 <m", "a = 1 <m<", "a = (1, \"x'",
    "a = 5 <m\nb = 6 <s>\nc = 7\nEND", "a = 5 <m b = 6 <s>", "a = (1, 2) <m\nb = 3 <s>\nEND\n",
    "a = 1\nb = \"unterminated\nc = 'x'", "GROUP = g\n a = \"x'",
]


def eof_hazards(rec, pvl, holder):
    """Every reader must reject these (judged directly: they are ill-formed by
    construction)."""
    for text in EOF_HAZARDS:
        for reader in gt.READERS:
            rec.case(("eof-hazard", reader, text), True)
            rec.count("end_of_text_hazards")
            parser = traced_parser(pvl, reader, holder)
            try:
                st, res = load(pvl, reader, text, parser=parser)
            except Spin as e:
                st, res = "Spin", e
            family = "omni" if reader in OMNI else "strict"
            wit = {"reader": reader, "text": text, "workload": "end-of-text hazards"}
            if st == "ok":
                rec.violation(CHECK, reader, "module-returned-for-ill-formed-text",
                              {"family": family, "ref": "unterminated-at-end-of-text"},
                              wit, f"returned {[k for k, _ in list(res)]}")
            elif st not in ("LexerError", "ParseError"):
                rec.violation(CHECK, reader, "ill-formed-text-raises-undocumented-type",
                              {"family": family, "ref": "unterminated-at-end-of-text",
                               "lib": st}, wit, f"{st}: {res}"[:200])


def corpus_texts(pvl):
    import os
    root = os.path.join(common.REPO, "tests", "data")
    out = []
    for dp, dn, fn in os.walk(root):
        for f in sorted(fn):
            try:
                out.append((f, pvl.get_text_from(os.path.join(dp, f))[:3000]))
            except Exception:
                pass
    return out


def shard(i, n, tier, seed, rec, hb):
    pvl = common.import_pvl()
    holder = {}
    per = 160 if tier == "quick" else 3500
    for reader in common.rotated(gt.READERS, i):
        for j in range(i, per, n):
            hb.beat()
            case(rec, pvl, reader, f"C05-{seed}-{reader}-{j}", tier, holder)
            char_damage_case(rec, pvl, reader, f"C05-char-{seed}-{reader}-{j}", tier,
                             holder)
    if i == 0:
        eof_hazards(rec, pvl, holder)
    for k, (name, text) in enumerate(corpus_texts(pvl)):
        if k % n != i:
            continue
        hb.beat()
        for reader in ("default", "PVL", "PDS3"):
            char_damage_case(rec, pvl, reader, f"C05-corpus-{seed}-{name}-{reader}",
                             tier, holder, base_text=text)
    # coverage-guided mutation of the corpus, judged by the same trace laws
    from .c06 import fuzz_stage
    fuzz_stage(i, n, tier, seed, rec, hb, prop="C05")


def finish_kwargs(rec, tier):
    return dict(required_counters=("ref[ill]", "ref[ok]", "trace_laws_evaluated",
                                   "ill_formed_rejected_properly",
                                   "well_formed_agree", "damage[delete]",
                                   "damage[truncate]", "damage[replace]",
                                   "damage[missing-value+other]",
                                   "char_damage_cases", "char_damage_returned"),
                level="fault_enumeration",
                assumptions=["reference recogniser vlib/refmodel.py (token "
                             "level; ambiguity => no verdict; empty blocks "
                             "accepted; nothing after END is read)"])


def replay(data):
    pvl = common.import_pvl()
    holder = {}
    bad = 0
    for w in data["witnesses"]:
        w = w["witness"]
        text = w["text"]
        parser = traced_parser(pvl, w["reader"], holder)
        try:
            st, res = load(pvl, w["reader"], text, parser=parser)
        except Spin as e:
            st, res = "Spin", e
        print("---", w["reader"], w.get("damage"))
        print(repr(text))
        print("   ->", st, (dict(res) if st == "ok" else str(res)[:200]))
        bad += 1
    return 1 if bad else 0
