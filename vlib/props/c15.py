"""C15 - strict dialects enforce their character set; the default accepts all.

1. table: all 1,114,112 code points x 5 grammars against the specification
   predicate (exhaustive).
2. positions: a label template with 14 syntactic positions x code points x the
   three strict grammars (through the strict parser and through
   pvl.loads(text, grammar=G)); error-attribute oracle on the LexerError.
3. default grammar: every code point inside a quoted string comes back
   unchanged.
"""
import random

from .. import common

RULE = (
    "table: every code point x 5 grammars (exhaustive); positions: 14 label "
    "positions x {all of 0..0x2FF, range edges +-1, surrogates, U+FFFF, "
    "U+10000, U+10FFFF, random others} x 3 strict grammars x 5 loader routes (the dialect's parser, "
    "loads/load with grammar=, loads/load with the dialect's decoder alone); "
    "any-offset: a disallowed character inserted at offsets spread over the "
    "whole text before END of generated documents (every offset in the "
    "thorough tier); "
    "default: all code points inside quoted strings (packed 256 per load; a table case = one 1024-code-point block of one grammar; "
    "quick tier: BMP sample + edges). distinct = distinct (workload, grammar, "
    "position, code point); non-trivial = code point is outside printable "
    "ASCII or a position case"
)

# code points that software tends to treat specially (byte order marks, zero
# width and bidi controls, Unicode line/paragraph separators and spaces, ^Z,
# soft hyphen, replacement characters)
SPECIALS = [0x1A, 0x85, 0xA0, 0xAD, 0x1680, 0x180E, 0x2028, 0x2029, 0x202F, 0x205F,
            0x2060, 0x3000, 0xFEFF, 0xFFFE, 0xFFF9, 0xFFFC, 0xFFFD] + \
    list(range(0x2000, 0x2010)) + list(range(0x202A, 0x202F))
EDGES = sorted({0, 1, 7, 8, 9, 10, 11, 12, 13, 14, 15, 30, 31, 32, 33, 126, 127,
                128, 129, 158, 159, 160, 161, 254, 255, 256, 257, 0x2FF, 0x300,
                0xD7FF, 0xD800, 0xDBFF, 0xDC00, 0xDFFF, 0xE000, 0xFFFE, 0xFFFF,
                0x10000, 0x10FFFE, 0x10FFFF})


def nshards(tier):
    return 16


def spec_allowed(dialect, o):
    if dialect in ("PVL", "ISIS"):
        return o <= 255 and not (0 <= o <= 8) and not (14 <= o <= 31) \
            and not (127 <= o <= 159)
    if dialect in ("ODL", "PDS3"):
        return o < 128
    return True  # default / Omni


def grammars(pvl):
    g = pvl.grammar
    return {"PVL": g.PVLGrammar(), "ODL": g.ODLGrammar(), "PDS3": g.PDSGrammar(),
            "ISIS": g.ISISGrammar(), "default": g.OmniGrammar()}


def strict_parser(pvl, dialect):
    P, G, D = pvl.parser, pvl.grammar, pvl.decoder
    if dialect == "PVL":
        return P.PVLParser(grammar=G.PVLGrammar(), decoder=D.PVLDecoder())
    if dialect == "ODL":
        return P.ODLParser(grammar=G.ODLGrammar(), decoder=D.ODLDecoder())
    if dialect == "PDS3":
        return P.ODLParser(grammar=G.PDSGrammar(), decoder=D.PDSLabelDecoder())
    raise KeyError(dialect)


# position templates: (name, text with {c}, token_start_marker)
# Each template is "<prefix lines>" + line containing the character.  '@' marks
# the start of the lexeme the character belongs to ('@' is removed); if there
# is no '@', the character starts a lexeme of its own.
HEAD = "FIRST = 1\n/* head */\n"
TEMPLATES = [
    ("start-of-text", "{c}a = 1\nEND\n", True),
    # (the only line break before the character is the first character of the text)
    ("second-line-after-one-leading-newline", "\n{c}a = 1\nEND\n", True),
    ("second-line-value-after-one-leading-newline", "\nk = @va{c}lue\nEND\n", True),
    ("third-line-after-two-leading-newlines", "\n\nk = 1 {c}\nEND\n", True),
    ("inside-parameter-name", HEAD + "  @na{c}me = 1\nEND\n", True),
    ("directly-after-equals", HEAD + "k = {c}1\nEND\n", True),
    ("inside-unquoted-value", HEAD + "k = @va{c}lue\nEND\n", True),
    ("inside-double-quoted", HEAD + 'k = @"te{c}xt"\nEND\n', True),
    ("inside-single-quoted", HEAD + "k = @'te{c}xt'\nEND\n", True),
    ("inside-comment", HEAD + "k = 1 @/* co{c}mment */\nj = 2\nEND\n", True),
    ("inside-units", HEAD + "k = 1 @<k{c}m>\nEND\n", True),
    ("between-statements", HEAD + "a = 1\n{c}\nb = 2\nEND\n", True),
    ("inside-block-name", HEAD + "GROUP = @gr{c}p\n x = 1\nEND_GROUP\nEND\n", True),
    ("inside-sequence", HEAD + "k = (1, {c}2, 3)\nEND\n", True),
    ("inside-set", HEAD + "k = {{1, {c}2}}\nEND\n", True),
    ("end-of-value-before-newline", HEAD + "k = @abc{c}\nj = 2\nEND\n", True),
    ("just-before-END", HEAD + "k = 1\n{c}END\n", True),
    ("after-dash-and-line-break", HEAD + "k = @ab-\n{c} cd\nEND\n", True),
    ("value-after-a-missing-value-in-a-block",
     HEAD + "GROUP = g\n  a =\n  b = {c}1\nEND_GROUP\nEND\n", True),
    ("name-after-a-missing-value", HEAD + "a =\n{c}b = 1\nEND\n", True),
    # the very end of a text that has no END statement
    ("last-character-of-a-text-without-END", HEAD + "k = 1\n{c}", True),
    ("last-characters-of-a-text-without-END", HEAD + "k = 1\n{c}{c}{c}", True),
    ("end-of-last-value-of-a-text-without-END", HEAD + "k = @abc{c}", True),
    ("last-line-of-a-text-without-END", HEAD + "k = 1\n{c}\n", True),
    ("after-END-newline", HEAD + "k = 1\nEND\n{c} trailing", False),
    ("after-END-directly", HEAD + "k = 1\nEND{c}", False),
    ("after-END-space", HEAD + "k = 1\nEND {c}{c}", False),
]


def render(tmpl, ch):
    t = tmpl.replace("{{", "\x00L").replace("}}", "\x00R")
    t = t.replace("{c}", "\x00C")
    ts = t.find("@")
    t = t.replace("@", "")
    i = t.find("\x00C")
    # account for the two-char placeholders before i
    pre = t[:i]
    i = len(pre.replace("\x00L", "{").replace("\x00R", "}"))
    text = t.replace("\x00C", ch).replace("\x00L", "{").replace("\x00R", "}")
    if ts < 0 or ts > i:
        ts = i
    return text, i, ts


def check_error(rec, e, text, i, ts, feats, wit):
    problems = []
    pos = getattr(e, "pos", None)
    if not isinstance(pos, int) or not (0 <= pos <= len(text)):
        problems.append(f"pos {pos!r} outside the text")
    else:
        if getattr(e, "lineno", None) != text.count("\n", 0, pos) + 1:
            problems.append(f"lineno {e.lineno} != line of pos {pos}")
        if getattr(e, "colno", None) != pos - text.rfind("\n", 0, pos):
            problems.append(f"colno {e.colno} != column of pos {pos}")
        if not (ts <= pos <= i):
            problems.append(
                f"pos {pos} is neither the offending character ({i}) nor "
                f"inside its lexeme (starts {ts})")
    if getattr(e, "doc", None) != text:
        problems.append("doc is not the text")
    rec.count("error_attribute_checks")
    if problems:
        kinds = sorted({p.split(" ")[0] for p in problems})
        import re
        rec.violation("C15", feats["dialect"], "error-attributes-inconsistent",
                      {"which": "+".join(kinds),
                       "char_starts_lexeme": ts == i,
                       "route": wit.get("route"),
                       "doc_differs": getattr(e, "doc", None) != text,
                       "dash_continuation_before_char":
                           re.search(r"-[\n\r\f]", text[:i]) is not None},
                      wit, "; ".join(problems))


def dialect_decoder(pvl, dialect):
    D = pvl.decoder
    return {"PVL": D.PVLDecoder, "ODL": D.ODLDecoder, "PDS3": D.PDSLabelDecoder}[dialect]()


def positions(rec, hb, pvl, cps, part, nparts, only=None):
    LexerError = pvl.exceptions.LexerError
    ParseError = pvl.exceptions.ParseError
    G = grammars(pvl)
    n = 0
    for dialect in ("PVL", "ODL", "PDS3"):
        for route in ("strict-parser", "loads(grammar=G)", "loads(decoder=D)",
                      "load(stream, grammar=G)", "load(stream, decoder=D)"):
            for name, tmpl, before_end in TEMPLATES:
                if route == "strict-parser" and "missing-value" in name:
                    continue    # only the Omni parser tolerates missing values
                if only is not None and name not in only:
                    continue
                for o in cps:
                    n += 1
                    if n % nparts != part:
                        continue
                    if route not in ("strict-parser", "loads(grammar=G)") and \
                            (o * 7 + len(name)) % 4:
                        continue    # the other ways in: every fourth code point
                    hb.beat()
                    ch = chr(o)
                    text, i, ts = render(tmpl, ch)
                    allowed = spec_allowed(dialect, o)
                    feats = {"dialect": dialect, "position": name}
                    wit = {"dialect": dialect, "route": route, "position": name,
                           "codepoint": o, "text": text}
                    judged = (
                        (before_end and not allowed) or not before_end
                        or name in ("inside-double-quoted",
                                    "inside-single-quoted", "inside-comment"))
                    if not judged:
                        # an allowed character in a syntactic position changes
                        # the label; C15 has nothing to say about it
                        rec.count("not_judged_allowed_char_in_syntax")
                        continue
                    rec.count(f"route[{route}]")
                    try:
                        with common.cpu_limit(30):
                            if route == "strict-parser":
                                pvl.loads(text, parser=strict_parser(pvl, dialect))
                            elif route == "loads(grammar=G)":
                                pvl.loads(text, grammar=G[dialect])
                            elif route == "loads(decoder=D)":
                                # the dialect chosen through its decoder alone
                                pvl.loads(text, decoder=dialect_decoder(pvl, dialect))
                            elif route == "load(stream, grammar=G)":
                                import io
                                pvl.load(io.StringIO(text), grammar=G[dialect])
                            else:
                                import io
                                pvl.load(io.StringIO(text),
                                         decoder=dialect_decoder(pvl, dialect))
                        out = ("ok", None)
                    except common.CaseTimeout:
                        rec.inconc(f"CPU budget exceeded on {wit}")
                        continue
                    except LexerError as e:
                        out = ("LexerError", e)
                    except ParseError as e:
                        out = ("ParseError", e)
                    except Exception as e:
                        out = (type(e).__name__, e)
                    rec.case(("pos", dialect, route, name, o), True,
                             sample=wit if n % 4001 == 0 else None)
                    rec.count(f"position[{name}]")
                    if before_end and not allowed:
                        rec.count("disallowed_before_END")
                        if out[0] != "LexerError":
                            rec.violation(
                                "C15", dialect, "disallowed-char-not-rejected",
                                {"position": name, "route": route,
                                 "outcome": out[0]}, wit,
                                f"U+{o:04X} at {name}: {out[0]}")
                        else:
                            check_error(rec, out[1], text, i, ts, feats, wit)
                    elif not before_end:
                        if allowed and name == "after-END-directly":
                            continue  # 'ENDx' is another token, not END + x
                        rec.count("after_END")
                        if out[0] != "ok":
                            rec.violation(
                                "C15", dialect, "char-after-END-matters",
                                {"position": name, "route": route,
                                 "outcome": out[0], "allowed": allowed}, wit,
                                f"U+{o:04X} after END: {out[0]}: {out[1]}")
                    elif name in ("inside-double-quoted", "inside-single-quoted",
                                  "inside-comment"):
                        # an allowed, ordinary character where any character
                        # may stand: no character-set error
                        ordinary = (ch not in " \t\n\r\v\f" and ch not in "\"'"
                                    and ch not in "*/-")
                        if ordinary:
                            rec.count("allowed_ordinary")
                            if out[0] == "LexerError" and "not allowed" in str(out[1]):
                                rec.violation(
                                    "C15", dialect, "allowed-char-rejected",
                                    {"position": name, "route": route}, wit,
                                    f"U+{o:04X}: {out[1]}")
                            elif out[0] != "ok":
                                rec.violation(
                                    "C15", dialect, "allowed-char-breaks-load",
                                    {"position": name, "route": route,
                                     "outcome": out[0]}, wit, f"U+{o:04X}: {out[1]}")


def default_quoted(rec, hb, pvl, cps, part, nparts):
    """Default grammar: code points inside quoted strings come back unchanged."""
    skip = set(map(ord, " \t\n\r\v\f"))
    chunk = 256
    cps = [o for o in cps if o not in skip]
    blocks = [cps[k:k + chunk] for k in range(0, len(cps), chunk)]
    for bi, block in enumerate(blocks):
        if bi % nparts != part:
            continue
        hb.beat()
        for q in ('"', "'"):
            body = "".join(chr(o) for o in block if chr(o) != q)
            # '-' followed by a format effector is a documented continuation;
            # none are present (white space was removed above)
            text = f"a = 1\nk = {q}{body}{q}\nb = 2\nEND\n"
            wit = {"quote": q, "first": block[0], "last": block[-1]}
            try:
                m = pvl.loads(text)
                ok = (list(m.keys()) == ["a", "k", "b"] and type(m["k"]) is str
                      and m["k"] == body)
                msg = "" if ok else f"got {m['k']!r:.120} keys={list(m.keys())}"
            except Exception as e:
                ok, msg = False, f"{type(e).__name__}: {e}"[:300]
            rec.count("default_codepoints_in_quotes", len(body))
            rec.case(("dq", q, block[0], block[-1]), True,
                     sample=wit if bi % 997 == 0 else None)
            if not ok:
                # isolate the offending code points
                bad = []
                for o in block:
                    if chr(o) == q:
                        continue
                    t1 = f"k = {q}x{chr(o)}y{q}\n"
                    try:
                        if pvl.loads(t1)["k"] != f"x{chr(o)}y":
                            bad.append(o)
                    except Exception:
                        bad.append(o)
                for o in bad[:8] or [block[0]]:
                    rec.violation("C15", "default", "default-changes-or-rejects-char",
                                  {"quote": q, "block": "ascii" if o < 128 else
                                   "latin1" if o < 256 else "beyond"},
                                  {"codepoint": o, "text": f"k = {q}x{chr(o)}y{q}\n"},
                                  msg)


def table(rec, hb, pvl, part, nparts):
    G = grammars(pvl)
    lo = 0x110000 * part // nparts
    hi = 0x110000 * (part + 1) // nparts
    for dialect, g in G.items():
        bad = []
        for o in range(lo, hi):
            if bool(g.char_allowed(chr(o))) != spec_allowed(dialect, o):
                bad.append(o)
        hb.beat()
        rec.count("table_entries_checked", hi - lo)
        rec.count(f"table[{dialect}]", hi - lo)
        for o in bad[:6]:
            rec.violation("C15", dialect, "char-table-differs-from-spec",
                          {"range": "0-31" if o < 32 else "32-126" if o < 127
                           else "127-159" if o < 160 else "160-255" if o < 256
                           else ">255"},
                          {"codepoint": o, "dialect": dialect},
                          f"char_allowed(U+{o:04X}) = {not spec_allowed(dialect, o)}")
        if bad:
            rec.count("table_mismatches", len(bad))
    for dialect in G:
        for b in range(lo, hi, 1024):
            rec.case(("table", dialect, b), True)


def any_offset(rec, hb, pvl, tier, seed, part, nparts):
    """A disallowed character at ANY offset before the END statement of a
    generated well-formed document must give a LexerError located at it."""
    from .. import gen_text as gt
    LexerError = pvl.exceptions.LexerError
    ndocs = 48 if tier == "quick" else 1500
    bad_chars = {"PVL": "\x01\x7f\x85\u0394\U0001F600", "ODL": "\x80\xe9\u0394",
                 "PDS3": "\x80\xe9\u0394"}
    for j in range(part, ndocs, nparts):
        rng = random.Random(f"C15-doc-{seed}-{j}")
        dialect = ("PVL", "ODL", "PDS3")[j % 3]
        while True:
            doc = gt.gen_document(rng, dialect, max_top=4)
            if not any(c == "seq-inside-set" for c, _ in doc.meta):
                break
        toks = list(doc.tokens)
        if toks[-1].kind == gt.SEMI:
            toks = toks[:-1]
        if toks[-1].kind != gt.END:
            toks.append(gt.Tok(gt.END, "END"))
        text, offs = gt.render_with_offsets(toks, gt.gen_layout(rng, toks, dialect, "lines"))
        end_at = offs[-1]
        step = 1 if tier == "thorough" else max(1, end_at // 60)
        for off in range(0, end_at + 1, step):
            hb.beat()
            ch = rng.choice(bad_chars[dialect])
            t2 = text[:off] + ch + text[off:]
            rec.case(("any-offset", dialect, j, off), True)
            rec.count("any_offset_cases")
            wit = {"dialect": dialect, "route": "strict-parser", "position":
                   "any-offset", "codepoint": ord(ch), "text": t2, "offset": off}
            try:
                with common.cpu_limit(30):
                    pvl.loads(t2, parser=strict_parser(pvl, dialect))
                out = ("ok", None)
            except LexerError as e:
                out = ("LexerError", e)
            except common.CaseTimeout:
                rec.inconc("CPU budget exceeded (any-offset)")
                continue
            except Exception as e:
                out = (type(e).__name__, e)
            # which kind of token surrounds the offset (a pure input feature)
            where = "between-tokens"
            for tk, o in zip(toks, offs):
                if o < off < o + len(tk.text):
                    where = "inside-" + tk.kind
                elif off == o:
                    where = "before-" + tk.kind
            if out[0] != "LexerError":
                rec.violation("C15", dialect, "disallowed-char-not-rejected",
                              {"position": "any-offset:" + where, "route": "strict-parser",
                               "outcome": out[0]}, wit,
                              f"U+{ord(ch):04X} at offset {off} ({where}): {out[0]}")
            else:
                e = out[1]
                # the error must point at the character, or at the start of
                # the lexeme / comment that holds it (never beyond it, never
                # into an earlier token)
                region = 0
                for tk, o in zip(toks, offs):
                    if o <= off:
                        region = o     # start of the last token that begins before
                ws_region = max(t2.rfind(c, 0, off) for c in " \t\n\r\f\v") + 1
                region = min(region, ws_region)
                pos = getattr(e, "pos", None)
                ok = (isinstance(pos, int) and region <= pos <= off
                      and e.lineno == t2.count("\n", 0, pos) + 1
                      and e.colno == pos - t2.rfind("\n", 0, pos))
                rec.count("error_attribute_checks")
                if not ok:
                    rec.violation("C15", dialect, "error-attributes-inconsistent",
                                  {"which": "any-offset", "char_starts_lexeme": False},
                                  wit, f"pos={getattr(e, 'pos', None)} lineno={e.lineno} "
                                       f"colno={e.colno} for a character at {off}")


def after_dash_continuation(rec, hb, pvl, part, nparts):
    """Default grammar: inside a quoted string a dash followed by a format
    effector (and the white space behind it) is a continuation and goes; the
    character behind it stays - also one that only Python takes for white
    space.  Through pvl.loads and through a PVL / ODL parser built with the
    permissive grammar and decoder."""
    P, G, D = pvl.parser, pvl.grammar, pvl.decoder
    cps = sorted(set(SPECIALS) | {0xA0, 0x85, 0x1C, 0x1D, 0x1E, 0x1F, 0x2003, 0x3000,
                                  0x2028, 0x2029, 0x1680, 0x202F, 0x205F, 0xE9, 0x7A,
                                  0x200B, 0xFEFF} - set(map(ord, " \t\n\r\v\f\"'")))
    routes = {
        "pvl.loads": lambda t: pvl.loads(t),
        "PVLParser(Omni)": lambda t: P.PVLParser(
            grammar=G.OmniGrammar(), decoder=D.OmniDecoder()).parse(t),
        "ODLParser(Omni)": lambda t: P.ODLParser(
            grammar=G.OmniGrammar(), decoder=D.OmniDecoder()).parse(t),
    }
    k = 0
    for o in cps:
        for eff in ("\n", "\r", "\f", "\v", "\r\n", "\n  "):
            for rname, fn in routes.items():
                k += 1
                if k % nparts != part:
                    continue
                hb.beat()
                text = f'a = 1\nk = "x-{eff}{chr(o)}y"\nb = 2\nEND\n'
                want = f"x{chr(o)}y"
                rec.count("default_codepoints_after_dash_continuation")
                rec.case(("dash", o, eff, rname), True)
                try:
                    with common.cpu_limit(30):
                        got = fn(text)["k"]
                    ok = type(got) is str and got == want
                    msg = f"got {got!r}, expected {want!r}"
                except common.CaseTimeout:
                    rec.inconc("CPU budget exceeded (dash continuation)")
                    continue
                except Exception as e:
                    ok, msg = False, f"{type(e).__name__}: {e}"[:200]
                if not ok:
                    rec.violation("C15", "default", "default-changes-or-rejects-char",
                                  {"quote": '"', "after_dash_continuation": True,
                                   "route": rname,
                                   "block": "ascii" if o < 128 else
                                   "latin1" if o < 256 else "beyond"},
                                  {"codepoint": o, "text": text, "route": rname}, msg)


def byte_routes(rec, hb, pvl, tier, part, nparts):
    """The label arrives as bytes with image data behind END (so the library
    decodes it piecewise): a disallowed multi-byte character before END - also
    one that lies across a read-block boundary - must still be rejected."""
    import io
    import os
    import tempfile
    from .c09 import straddle_label, BLOCKS
    LexerError = pvl.exceptions.LexerError
    G = grammars(pvl)
    k = 0
    for dialect, chars in (("PVL", ("\u20ac", "\U0001F600")),
                           ("ODL", ("\xe9", "\u20ac")), ("PDS3", ("\xe9", "\U0001F600"))):
        for block in BLOCKS:
            if tier == "quick" and block > 4096:
                continue
            for ch in chars:
                for shift in range(2 * len(ch.encode("utf-8"))):
                    k += 1
                    if k % nparts != part:
                        continue
                    hb.beat()
                    # (second half: the only such character sits in the last
                    # block before the data)
                    only_last = shift >= len(ch.encode("utf-8"))
                    shift %= len(ch.encode("utf-8"))
                    label = straddle_label(block, ch, shift, only_last)
                    if label is None:
                        continue
                    data = label + b"\n\xff\xfe\x00\x81data" + b"\x00" * 40
                    text = label.decode("utf-8")
                    i = text.index(ch)
                    fd, path = tempfile.mkstemp(prefix="pvl-c15-", dir="/dev/shm")
                    with os.fdopen(fd, "wb") as f:
                        f.write(data)
                    try:
                        for rname, fn in (
                                ("loads(bytes+data, grammar=G)",
                                 lambda: pvl.loads(data, grammar=G[dialect])),
                                ("load(binary stream+data, grammar=G)",
                                 lambda: pvl.load(io.BytesIO(data), grammar=G[dialect])),
                                ("load(path+data, decoder=D)",
                                 lambda: pvl.load(path, decoder=dialect_decoder(pvl, dialect))),
                                ("load(path+data, parser)",
                                 lambda: pvl.load(path, parser=strict_parser(pvl, dialect)))):
                            rec.count(f"route[{rname}]")
                            rec.case(("bytes", dialect, block, ch, shift, rname), True)
                            wit = {"dialect": dialect, "route": rname, "codepoint": ord(ch),
                                   "character_at_byte": block - shift, "block": block,
                                   "text_around": text[max(0, i - 20):i + 20]}
                            try:
                                with common.cpu_limit(60):
                                    fn()
                                out = "ok"
                            except common.CaseTimeout:
                                rec.inconc("CPU budget exceeded (byte routes)")
                                continue
                            except LexerError as e:
                                out = "LexerError"
                                pos = getattr(e, "pos", None)
                                if not isinstance(pos, int) or not 0 <= pos <= len(text):
                                    rec.violation(
                                        "C15", dialect, "error-attributes-inconsistent",
                                        {"which": "pos", "route": rname,
                                         "char_starts_lexeme": False, "doc_differs": None,
                                         "dash_continuation_before_char": False}, wit,
                                        f"pos {pos!r} outside the label")
                            except Exception as e:
                                out = type(e).__name__
                            rec.count("disallowed_before_END_through_bytes")
                            if out != "LexerError":
                                rec.violation(
                                    "C15", dialect, "disallowed-char-not-rejected",
                                    {"position": "inside-double-quoted", "route": rname,
                                     "outcome": out,
                                     "at_multiple_of": block if shift else 0}, wit,
                                    f"U+{ord(ch):04X} before END, label handed over as "
                                    f"bytes with data behind END: {out}")
                    finally:
                        os.unlink(path)


def shard(i, n, tier, seed, rec, hb):
    pvl = common.import_pvl()
    rng = random.Random(f"C15-{seed}")
    table(rec, hb, pvl, i, n)
    byte_routes(rec, hb, pvl, tier, i, n)
    any_offset(rec, hb, pvl, tier, seed, i, n)
    cps = set(range(0, 0x300)) | set(EDGES) | set(SPECIALS)
    cps |= {rng.randrange(0x300, 0x110000) for _ in range(300 if tier == "quick" else 3000)}
    if tier == "thorough":
        cps |= set(range(0x300, 0x3000))
    positions(rec, hb, pvl, sorted(cps), i, n)
    if tier == "thorough":
        # every code point at the very start of the text and between statements
        positions(rec, hb, pvl, [o for o in range(0x3000, 0x110000) if o not in cps],
                  i, n, only=("start-of-text", "between-statements"))
    if tier == "thorough":
        dq = range(0, 0x110000)
    else:
        dq = sorted(set(range(0, 0x3000)) | set(EDGES)
                    | {rng.randrange(0x3000, 0x110000) for _ in range(20000)})
    default_quoted(rec, hb, pvl, list(dq), i, n)
    after_dash_continuation(rec, hb, pvl, i, n)


def finish_kwargs(rec, tier):
    return dict(
        extra_cov={
            "exhaustive": rec.c.get("table_entries_checked", 0) == 5 * 0x110000,
            "explanation": "exhaustive = the character table (all code points "
                           "x 5 grammars); positions are a bounded sample "
                           "(thorough: default-grammar quoted strings cover "
                           "all code points too)",
        },
        required_counters=("table_entries_checked", "disallowed_before_END",
                           "after_END", "allowed_ordinary",
                           "error_attribute_checks", "any_offset_cases",
                           "default_codepoints_in_quotes",
                           "route[loads(decoder=D)]", "route[load(stream, grammar=G)]",
                           "disallowed_before_END_through_bytes",
                           "default_codepoints_after_dash_continuation",
                           "route[load(stream, decoder=D)]"),
        assumptions=["specification predicate: PVL/ISIS = ISO 8859-1 minus "
                     "0-8, 14-31, 127-159; ODL/PDS3 = code points < 128"],
    )


def replay(data):
    pvl = common.import_pvl()
    G = grammars(pvl)
    bad = 0
    for w in data["witnesses"]:
        w = w["witness"]
        if "text" in w and "dialect" in w:
            try:
                if w.get("route") == "strict-parser":
                    r = pvl.loads(w["text"], parser=strict_parser(pvl, w["dialect"]))
                else:
                    r = pvl.loads(w["text"], grammar=G[w["dialect"]])
                print(repr(w["text"]), "->", r)
            except Exception as e:
                print(repr(w["text"]), "->", type(e).__name__,
                      {k: getattr(e, k, None) for k in ("pos", "lineno", "colno")})
        elif "text" in w:
            try:
                print(repr(w["text"]), "->", dict(pvl.loads(w["text"])))
            except Exception as e:
                print(repr(w["text"]), "->", type(e).__name__, e)
        else:
            o = w["codepoint"]
            print(w, G[w["dialect"]].char_allowed(chr(o)),
                  "spec:", spec_allowed(w["dialect"], o))
        bad += 1
    print("replayed", bad, "witness(es); compare with the recorded messages")
    return 1
