"""C16 - parser, decoder and encoder instances carry no state between calls.

History monitor: one long-lived instance is fed a sequence of inputs; after
each call the observable triple (result snapshot, errors attribute, exception
type/attributes/message) is compared with what a FRESH instance gives for that
input alone.  All ordered pairs and triples over a set of representative
inputs (exhaustive for that set) plus random longer histories; also the
shared tables pvl_validate.dialects and pvl_translate.formats."""
import importlib
import io
import itertools
import random

from .. import common
from ..gen_values import (gen_module, gen_config, make_encoder, DIALECTS)
from ..gen_values import strict_parser as _strict_parser
from ..normalise import snapshot, clone

CHECK = "C16"
OWN_HISTORY = True   # after the pristine copy was forked
RULE = (
    "parsers: all ordered pairs and triples over 16 representative texts "
    "(well-formed, with empty values, failing in the lexer, failing deep in a "
    "block, without END, very short, different line counts ...) x 5 parser "
    "configurations, plus random histories of up to 12 texts; encoders: "
    "pairs/triples over 10 modules (incl. refusals and PDS3 conversions) x 4 "
    "encoder classes; decoders: random histories of decode_* calls; shared "
    "tables of pvl_validate / pvl_translate. distinct = (instance kind, "
    "history); non-trivial = history length >= 2"
)
TEXTS = [
    "a = 1\nb = 2\nEND\n",
    "a =\nb = 2\nc =\nEND\n",
    "a = 1\n\n\n\nb =\n",
    "a = \x01\n",
    "GROUP = g\n x = 1\n y = (1, 2\nEND_GROUP\n",
    "GROUP = g\n x = 1\nEND_OBJECT\n",
    "x = 'unterminated\n",
    "a=1",
    "",
    "OBJECT = o\n GROUP = g\n  k = {1, 2}\n END_GROUP\nEND_OBJECT\nEND\n",
    "a = 1 2\n",
    "a = 12:00:60\nb = 16#FF#\n",
    "/* only a comment */\n",
    "k = \"multi\n line\"\nj =\n\n\nq =\nEND\n",
    "a =\nb = 2\nOBJECT = o\n c =\n",                 # empty values, then fatal
    "x =\nGROUP = g\n y =\nEND_GROUP = other\n",       # empty values, then fatal
    "/* hdr */\na = 1 /* t */\nb = \"x y\"\nc = 5 <m>\nEND\n",   # comments, then fine
    "/* c */ a = 'unterminated\n",                    # comment, then dies in a quote
    "/* c */ k = 5 <unclosed\n",                      # ... in a units expression
    "/* c */\nn = 16#FF\n",                           # ... in a based number
    # block keywords in capitals, then names that only UPPER-CASE to them
    "BEGIN_GROUP = g\n a = 1\nEND_GROUP = g\nBEGIN_OBJECT = o\nEND_OBJECT\nEND\n",
    "beg\u0131n_group = 5\nBEG\u0131N_OBJECT = 6\nx = fal\u017fe\nEND\n",
    # a stray comment delimiter in the first bare word of a text
    "c = d*/\n", "c = */\nEND\n", "c = /*unfinished\n",
    # a line that ends in a dash (the permissive parsers take another path)
    "name = Mars-\n   Odyssey\nk = 2\nEND\n", "k = (1, 2,-\n 3)\nEND\n",
    "a =\nb = x-\n y\nc =\n", "s = \"one-\n  two\"\nt =\n\nu = 1\n",
]
PARSERS = ("PVL", "ODL", "PDS3", "ISIS", "default", "lenient-PVL", "lenient-ODL")
# how the long-lived instance is called: directly, through pvl.loads/load with
# parser=, and through pvl.loads with a grammar and decoder of ANOTHER dialect
# given alongside (documented as ignored when a parser is given)
PCALLS = ("parse", "loads", "loads+other", "load")
ECALLS = ("encode", "dumps", "dumps+other")
OTHER = {"PVL": "ODL", "ODL": "ISIS", "PDS3": "PVL", "ISIS": "PDS3", "default": "PVL",
         "lenient-PVL": "ODL", "lenient-ODL": "PVL"}


def nshards(tier):
    return 16


_LENIENT = {}


def strict_parser(pvl, reader):
    """The five library configurations, plus two *user subclasses*: a strict
    PVL / ODL parser that tolerates missing values by re-using the permissive
    parser's hooks and the base class's ``errors`` list (what the hooks are
    documented for).  A parser subclass is a parser: one instance must not
    carry anything from text to text either."""
    if not reader.startswith("lenient-"):
        return _strict_parser(pvl, reader)
    base = reader.split("-", 1)[1]
    if base not in _LENIENT:
        P = pvl.parser
        parent = {"PVL": P.PVLParser, "ODL": P.ODLParser}[base]
        body = {}
        for name in ("_empty_value", "parse_value_post_hook", "parse_module_post_hook"):
            if name in vars(P.OmniParser):
                body[name] = vars(P.OmniParser)[name]
        _LENIENT[base] = type("Lenient" + base + "Parser", (parent,), body)
    G, D = pvl.grammar, pvl.decoder
    if base == "PVL":
        return _LENIENT[base](grammar=G.PVLGrammar(), decoder=D.PVLDecoder())
    return _LENIENT[base](grammar=G.ODLGrammar(), decoder=D.ODLDecoder())


def other_pair(pvl, reader):
    o = strict_parser(pvl, OTHER[reader])
    return o.grammar, o.decoder


def observe_parse(pvl, parser, text, call="parse", reader=None, keep=None):
    """keep: a list that receives the returned module itself (what an earlier
    call handed back must not change when the instance is used again)."""
    try:
        with common.cpu_limit(30):
            if call == "parse":
                m = parser.parse(text)
            elif call == "loads":
                m = pvl.loads(text, parser=parser)
            elif call == "load":
                m = pvl.load(io.StringIO(text), parser=parser)
            else:
                g, d = other_pair(pvl, reader)
                m = pvl.loads(text, parser=parser, grammar=g, decoder=d)
        if keep is not None:
            keep.append(m)
        return ("ok", snapshot(m), tuple(getattr(m, "errors", ())))
    except common.CaseTimeout:
        return ("timeout",)
    except Exception as e:
        return ("exc", type(e).__name__,
                tuple(getattr(e, a, None) for a in ("pos", "lineno", "colno")),
                str(e)[:300])


def parser_histories(rec, hb, pvl, tier, seed, part, nparts, pristine):
    fresh_cache = {}

    def fresh(reader, call, text):
        """The same single call on a fresh instance in a pristine process."""
        k = (reader, call, text)
        if k not in fresh_cache:
            fresh_cache[k] = pristine.ask(("parse", reader, call, text))
            rec.count("pristine_process_references")
        return fresh_cache[k]

    T = range(len(TEXTS))
    hists = [tuple((0, t) for t in h) for h in itertools.product(T, repeat=2)]
    triples = [tuple((0, t) for t in h) for h in itertools.product(T, repeat=3)]
    if tier == "quick":
        triples = triples[::2]
    hists += triples
    # every other way of calling the instance first, then a plain parse
    hists += [((c, t1), (0, t2)) for c in range(1, len(PCALLS)) for t1 in T for t2 in T]
    rng = random.Random(f"C16-{seed}")
    for _ in range(300 if tier == "quick" else 40000):
        hists.append(tuple((rng.randrange(len(PCALLS)) if rng.random() < 0.5 else 0,
                            rng.randrange(len(TEXTS)))
                           for _ in range(rng.randint(4, 12))))
    n = 0
    npairs = len(TEXTS) ** 2
    for reader in PARSERS:
        # the two user subclasses: all pairs and the random histories
        use = hists if not reader.startswith("lenient-") else \
            hists[:npairs] + hists[-(300 if tier == "quick" else 40000):]
        for h in use:
            n += 1
            if n % nparts != part:
                continue
            hb.beat()
            inst = strict_parser(pvl, reader)
            show = [(PCALLS[c], TEXTS[t]) for c, t in h]
            rec.case(("parser", reader, h), len(h) >= 2,
                     sample={"parser": reader, "history": show}
                     if n % 4001 == 0 else None)
            handed_back = []      # (module, what it looked like when returned)
            for step, (ci, ti) in enumerate(h):
                kept = []
                got = observe_parse(pvl, inst, TEXTS[ti], PCALLS[ci], reader, keep=kept)
                # results of earlier calls are the caller's: still the same?
                for k2, (m0, was) in enumerate(handed_back):
                    now = ("ok", snapshot(m0), tuple(getattr(m0, "errors", ())))
                    rec.count("earlier_results_looked_at_again")
                    if now != was:
                        rec.violation(
                            CHECK, reader, "earlier-result-changed-by-a-later-call",
                            {"what": "errors" if now[1] == was[1] else "content"},
                            {"parser": reader, "history": show[:step + 1],
                             "result_of_step": k2},
                            f"the module returned by step {k2} was {was!r:.150} and "
                            f"is {now!r:.150} after step {step}")
                        handed_back = []
                        break
                if kept:
                    handed_back.append((kept[0], got))
                want = fresh(reader, PCALLS[ci], TEXTS[ti])
                rec.count("parser_steps_compared")
                rec.count(f"parser_calls[{PCALLS[ci]}]")
                if got != want:
                    prev = h[:step]
                    what = ("errors" if got[:2] == want[:2] and got[0] == "ok"
                            else "result" if got[0] == want[0] == "ok"
                            else "exception" if got[0] == want[0] else "outcome")
                    here = observe_parse(pvl, strict_parser(pvl, reader), TEXTS[ti],
                                         PCALLS[ci], reader)
                    rec.violation(
                        CHECK, reader, "reused-parser-differs-from-fresh",
                        {"what": what,
                         "an_earlier_text_had_empty_values":
                             any("=\n" in TEXTS[t] for c, t in prev),
                         "an_earlier_text_failed":
                             any(fresh(reader, PCALLS[c], TEXTS[t])[0] == "exc"
                                 for c, t in prev),
                         "an_earlier_call_lent_grammar_and_decoder":
                             any(PCALLS[c] == "loads+other" for c, t in prev),
                         "state_is_outside_the_instance": here != want},
                        {"parser": reader, "history": show[:step + 1]},
                        f"step {step}: reused {got!r:.200} vs fresh instance in a "
                        f"pristine process {want!r:.200}")
                    break


SOAK_TEXTS = [
    # failures in the middle of nested values, at several depths
    "k = (1, (2, (3, 4\n", "k = {1, {2, 3\n", "k = ((((1, 2)\n", "k = (1, 2 3)\n",
    "k = (1, {2, (3, \x01)})\n", "GROUP = g\n k = (1, (2\nEND_GROUP\n",
    "k = (1, 'unterminated)\n", "k = (1, 2) <m\n", "k = ((1, 2), (3, 4\n",
]
SOAK_GOOD = [
    "k = (1, (2, (3, 4)))\nEND\n", "k = {1, 2}\nj = ((1, 2), (3, 4))\nEND\n",
    "a = 1\nb = 2\nEND\n", "a =\nb = (1, 2)\nEND\n",
    "GROUP = g\n x = ((1), (2))\nEND_GROUP\nEND\n",
]


def parser_soak(rec, hb, pvl, tier, seed, part, nparts, pristine):
    """One parser object for hundreds of texts, most of which fail part-way
    through a nested value: whatever it counts, caches or leaves open must not
    reach the well-formed texts in between (each compared with a fresh parser
    in a pristine process)."""
    fresh_cache = {}
    rng = random.Random(f"C16-soak-{seed}-{part}")
    steps = 700 if tier == "quick" else 6000
    for k, reader in enumerate(PARSERS):
        if k % nparts != part % len(PARSERS) and nparts >= len(PARSERS):
            continue
        hb.beat()
        inst = strict_parser(pvl, reader)
        hist_len = 0
        for step in range(steps):
            bad = step % 7 != 6
            text = rng.choice(SOAK_TEXTS + TEXTS[3:8]) if bad else rng.choice(SOAK_GOOD)
            got = observe_parse(pvl, inst, text, "parse", reader)
            key = (reader, text)
            if key not in fresh_cache:
                fresh_cache[key] = pristine.ask(("parse", reader, "parse", text))
                rec.count("pristine_process_references")
            rec.count("soak_steps_compared")
            hist_len += 1
            if got != fresh_cache[key]:
                rec.violation(
                    CHECK, reader, "reused-parser-differs-from-fresh",
                    {"what": "outcome" if got[0] != fresh_cache[key][0] else "result",
                     "after_a_long_history": True,
                     "an_earlier_text_failed": True,
                     "an_earlier_text_had_empty_values": None,
                     "an_earlier_call_lent_grammar_and_decoder": False,
                     "state_is_outside_the_instance": None},
                    {"parser": reader, "history_length": hist_len, "text": text,
                     "history": "random draws from SOAK_TEXTS (6 of 7) and SOAK_GOOD"},
                    f"after {hist_len} texts: {got!r:.200} vs fresh {fresh_cache[key]!r:.200}")
                break
        rec.case(("parser-soak", reader, part), True)


def encoder_modules(pvl, rng):
    col = pvl.collections
    mods = []
    for d in DIALECTS:
        for _ in range(2):
            mods.append(gen_module(rng, d, 80, col).module)
    mods.append(col.PVLModule([("g", col.PVLGroup([("a", 1)])), ("k", "two words")]))
    mods.append(col.PVLModule([("t", "both \" and '")]))
    # characters outside one or the other dialect's set: a refusal must not
    # change what the instance does with the same character next time
    mods.append(col.PVLModule([("s", "caf\xe9"), ("u", col.Quantity(1, "\xb5m"))]))
    mods.append(col.PVLModule([("s", "a\x07b")]))
    mods.append(col.PVLModule([("g", col.PVLGroup([("s", "\u0394v caf\xe9 \x07")]))]))
    # "equal twins": values that compare equal (and hash alike) but are written
    # differently - a reused instance must not hand back the earlier text
    import datetime as dt
    import decimal
    Q = col.Quantity
    tz5 = dt.timezone(dt.timedelta(hours=5))
    twins = [
        (0.0, -0.0), (Q(15, "m"), Q(15.0, "m")), (frozenset({1}), frozenset({1.0})),
        (decimal.Decimal("2.50"), decimal.Decimal("2.5")), (1, 1.0),
        (dt.datetime(2001, 1, 1, 12, 0, tzinfo=dt.timezone.utc),
         dt.datetime(2001, 1, 1, 17, 0, tzinfo=tz5)),
        ([1, 2.0], [1.0, 2]),
    ]
    for a, b in twins:
        mods.append(col.PVLModule([("x", a), ("y", "same")]))
        mods.append(col.PVLModule([("x", b), ("y", "same")]))
    return mods


def refusal_family(pvl):
    """Modules around what one or another encoder refuses *part-way through a
    value*, each next to an accepted neighbour of the same shape: a refusal
    raised in the middle of a nested value must leave nothing behind."""
    import datetime as dt
    col = pvl.collections
    Q = col.Quantity
    M = col.PVLModule
    return [
        M([("a", [[[1, 2], [3, 4]], [[5, 6], [7, 8]]])]),       # 3-D: ODL/PDS3 refuse
        M([("a", [[1, 2], [3, 4]])]),                           # 2-D
        M([("a", [1, 2, 3]), ("b", [[1], [2]])]),
        M([("a", [])]),                                         # empty: ODL/PDS3 refuse
        M([("a", [1, [2, [3, [4, [5]]]]])]),                    # 5 deep
        M([("a", frozenset([frozenset([1, 2]), 3]))]),          # nested set
        M([("a", [1, frozenset([2, 3])])]),                     # set inside a sequence
        M([("a", frozenset([1, 2]))]),
        M([("a", Q("text", "m")), ("b", Q(5, "m"))]),           # units on a string
        M([("a", Q([1, 2], "m")), ("b", Q(5, "m"))]),           # units on a sequence
        M([("a", Q(5, "m>s"))]),                                # units nobody can write
        M([("a", dt.time(12, 0, 0, 123456)), ("b", dt.time(12, 0, 0, 123000))]),
        M([("a", dt.time(12, 0, tzinfo=dt.timezone(dt.timedelta(hours=5)))),
           ("b", dt.time(12, 0, tzinfo=dt.timezone.utc))]),
        M([("a_parameter_name_longer_than_thirty_chars", 1), ("short", 2)]),
        M([("a.b", 1), ("ok", 2)]),
        M([("g", col.PVLGroup([("a", 1), ("h", col.PVLGroup([("b", 2)]))]))]),
        M([("g", col.PVLGroup([("a", [1, [2, [3]]])])), ("k", [[1], [2]])]),
        M([("a", object)]) if False else M([("a", 1 + 2j)]),    # a type nobody writes
        M([("a", [1, 2]), ("b", [3.5, "x"])]),
        # lines that have to be wrapped: plain ones, and ones that hold the
        # characters Python takes for white space although the dialects do not
        # (what an encoder prepares for its first wrapped line must still be
        # right for a later one)
        M([("t", "word " * 30), ("s", ["alpha beta"] * 12), ("q", Q(5, "m / s"))]),
        M([("t", "alpha\xa0beta gamma delta " * 6), ("u", ["it's a\xa0b c"] * 8),
           ("q", Q(5, "a\xa0b c"))]),
        M([("t", "alpha\x1ebeta gamma\x1fdelta " * 6), ("u", ["one\x1ctwo three"] * 9)]),
        M([("t", "x\ue000y z \ue001 " * 12)]),
        # ... whose highest character is exactly the first / the last private
        # use character, or the one before
        M([("k", ["alpha\ue000beta"] + ["item"] * 25)]),
        M([("k", ["item"] * 25 + ["it's", "\ue000\ue000"])]),
        M([("k", ["alpha\ud7ffbeta"] + ["item"] * 25), ("j", ["\uf8ff x"] * 20)]),
        # strings one or another encoder has no notation for, next to accepted
        # ones (the same refused string comes round again in a history)
        M([("a", 1), ("note", 'say "cheese"\nplease')]),
        M([("a", "it's"), ("note", 'say "cheese"')]),
        M([("c", 3), ("o", col.PVLObject([("remark", [1, 'say "x"\nplease'])]))]),
        M([("a", 'both \' and "'), ("b", "N/A")]),
        # names ODL / PDS3 refuse, whose upper-cased form is a name they
        # write, next to that name
        M([("sample_bits", 8), ("ok", 1)]),
        M([("\u017fample_bits", 8), ("ok", 1)]),
        M([("lines", 3), ("g", col.PVLGroup([("l\u0131nes", 4)]))]),
        M([("^lines", 3), ("stra\u00dfe", 1)]), M([("strasse", 1)]),
    ]


def observe_encode(enc, module, call="encode", pvl=None, dialect=None, keep=False):
    try:
        if call == "encode":
            # (keep: the caller's very object, not a structural copy of it)
            return ("ok", enc.encode(module if keep else clone(module)))
        if call == "dumps":
            return ("ok", pvl.dumps(clone(module), encoder=enc))
        g, d = other_pair(pvl, dialect)
        return ("ok", pvl.dumps(clone(module), encoder=enc, grammar=g, decoder=d))
    except Exception as e:
        return ("exc", type(e).__name__, str(e)[:200])


def encoder_setup(pvl, seed):
    """Modules and configurations, built before the pristine copy is forked so
    that both sides hold the same objects."""
    rng = random.Random(f"C16-enc-{seed}")
    mods = encoder_modules(pvl, rng)
    mods = refusal_family(pvl) + mods
    cfgs = {d: [{}, gen_config(rng, d)] for d in DIALECTS}
    return mods, cfgs


def encoder_histories(rec, hb, pvl, tier, seed, part, nparts, pristine, mods, cfgs):
    base = len(mods) - 14      # the 14 trailing modules are the equal twins
    nfam = len(refusal_family(pvl))   # the leading modules are the refusal family
    hists = [tuple((0, m) for m in h) for n in (2, 3)
             for h in itertools.product(range(nfam, base), repeat=n)]
    if tier == "quick":
        hists = [h for k, h in enumerate(hists) if k % 3 == 0]
    fam = [tuple((0, m) for m in h) for h in itertools.product(range(nfam), repeat=2)]
    fam += [((0, a), (0, b), (0, c)) for a in range(nfam) for b in range(nfam)
            for c in range(nfam) if tier == "thorough" or (a * 7 + b * 3 + c) % 11 == 0]
    fam += [((0, a), (0, b)) for a in range(nfam) for b in range(nfam, base)]
    hists += fam
    for t in range(base, len(mods), 2):
        hists += [((0, t), (0, t + 1)), ((0, t + 1), (0, t)),
                  ((0, t), (0, 0), (0, t + 1)), ((0, t + 1), (0, t), (0, t + 1))]
    if tier == "thorough":
        hists += [tuple((0, m) for m in h)
                  for h in itertools.product(range(base, len(mods)), repeat=2)]
    hists += [((c, m1), (0, m2)) for c in range(1, len(ECALLS))
              for m1 in range(nfam, base) for m2 in range(nfam, base)]
    n = 0
    for dialect in DIALECTS:
        for cfg_i, cfg in enumerate(cfgs[dialect]):
            fresh_cache = {}
            for h in hists:
                n += 1
                if n % nparts != part:
                    continue
                hb.beat()
                inst = make_encoder(pvl, dialect, cfg)
                rec.case(("encoder", dialect, repr(cfg), h), True)
                for step, (ci, mi) in enumerate(h):
                    got = observe_encode(inst, mods[mi], ECALLS[ci], pvl, dialect)
                    k = (ci, mi)
                    if k not in fresh_cache:
                        fresh_cache[k] = pristine.ask(("encode", dialect, cfg_i,
                                                       ECALLS[ci], mi))
                        rec.count("pristine_process_references")
                    rec.count("encoder_steps_compared")
                    rec.count(f"encoder_calls[{ECALLS[ci]}]")
                    if got != fresh_cache[k]:
                        here = observe_encode(make_encoder(pvl, dialect, cfg), mods[mi],
                                              ECALLS[ci], pvl, dialect)
                        rec.violation(
                            CHECK, dialect, "reused-encoder-differs-from-fresh",
                            {"what": got[0] + "-vs-" + fresh_cache[k][0],
                             "an_earlier_call_lent_grammar_and_decoder":
                                 any(ECALLS[c] == "dumps+other" for c, m in h[:step]),
                             "state_is_outside_the_instance": here != fresh_cache[k]},
                            {"dialect": dialect, "cfg": cfg,
                             "history": [(ECALLS[c], m) for c, m in h[:step + 1]],
                             "module": repr(mods[mi])[:500]},
                            f"step {step}: {got!r:.200} vs {fresh_cache[k]!r:.200}")
                        break


def shared_object_histories(rec, hb, pvl, tier, seed, part, nparts):
    """The same container OBJECTS (not clones) handed to one encoder instance
    in several modules: identity-keyed memory must not change the output."""
    col = pvl.collections

    def build():
        g = col.PVLGroup([("a", 1), ("b", "two words")])
        g2 = col.PVLGroup([("c", 2)])
        o = col.PVLObject([("x", 1)])
        mods = [
            col.PVLModule([("settings", g)]),
            col.PVLModule([("settings", g), ("obj", o)]),
            col.PVLModule([("k", 1), ("settings", g), ("other", g2)]),
            col.PVLModule([("other", g2), ("obj", o), ("settings", g)]),
            col.PVLModule([("obj", o)]),
        ]
        return mods

    import itertools as it
    n = 0
    for dialect in DIALECTS:
        for h in [h for r in (2, 3) for h in it.permutations(range(5), r)]:
            n += 1
            if n % nparts != part:
                continue
            hb.beat()
            mods = build()
            inst = make_encoder(pvl, dialect, {})
            rec.case(("encoder-shared", dialect, h), True)
            for step, mi in enumerate(h):
                try:
                    got = ("ok", inst.encode(mods[mi]))
                except Exception as e:
                    got = ("exc", type(e).__name__)
                # fresh encoder on freshly built, identical objects that went
                # through the same earlier dumps (the PDS3 encoder may convert
                # groups of the caller's module in place)
                fmods = build()
                for prev in h[:step]:
                    try:
                        make_encoder(pvl, dialect, {}).encode(fmods[prev])
                    except Exception:
                        pass
                try:
                    want = ("ok", make_encoder(pvl, dialect, {}).encode(fmods[mi]))
                except Exception as e:
                    want = ("exc", type(e).__name__)
                rec.count("shared_object_steps_compared")
                if got != want:
                    rec.violation(
                        CHECK, dialect, "reused-encoder-differs-from-fresh",
                        {"what": "shared-container-objects"},
                        {"dialect": dialect, "history": list(h[:step + 1])},
                        f"step {step}: {got!r:.200} vs {want!r:.200}")
                    break


DEC_STRINGS = ["1", "1.5", "abc", '"q s"', "'x'", "2001-01-01", "12:00:60", "16#FF#",
               "2#101#", "NULL", "true", "END", "12:00+05", "", "a b", "1e5",
               "2001-001T12:00:00.5Z", "\"a-\n  b\""]


def decoder_makers(pvl):
    D = pvl.decoder
    return {
        "PVLDecoder": lambda: D.PVLDecoder(),
        "ODLDecoder": lambda: D.ODLDecoder(),
        "PDSLabelDecoder": lambda: D.PDSLabelDecoder(),
        "OmniDecoder": lambda: D.OmniDecoder(),
    }


def observe_decode(dec, fn, s):
    try:
        r = getattr(dec, fn)(s)
        return ("ok", type(r).__name__, repr(r))
    except Exception as e:
        return ("exc", type(e).__name__)


def decoder_histories(rec, hb, pvl, tier, seed, part, nparts, pristine):
    makers = decoder_makers(pvl)
    fns = ("decode_simple_value", "decode_datetime", "decode_quoted_string",
           "decode_decimal", "decode_non_decimal", "decode_unquoted_string")
    rng = random.Random(f"C16-dec-{seed}-{part}")
    obs = observe_decode
    fresh_cache = {}

    def fresh(name, fn, s):
        k = (name, fn, s)
        if k not in fresh_cache:
            fresh_cache[k] = pristine.ask(("decode", name, fn, s))
            rec.count("pristine_process_references")
        return fresh_cache[k]

    for name, mk in makers.items():
        for hnum in range((120 if tier == "quick" else 3000) // nparts + 1):
            hb.beat()
            inst = mk()
            hist = []
            for step in range(rng.randint(2, 12)):
                fn, s = rng.choice(fns), rng.choice(DEC_STRINGS)
                hist.append((fn, s))
                got = obs(inst, fn, s)
                want = fresh(name, fn, s)
                rec.count("decoder_steps_compared")
                if got != want:
                    rec.violation(CHECK, name, "reused-decoder-differs-from-fresh",
                                  {"function": fn}, {"decoder": name, "history": hist},
                                  f"{got} vs {want}")
                    break
            rec.case(("decoder", name, tuple(hist)), True)


def shared_tables(rec, hb, pvl, tier, seed):
    """pvl_validate.dialects and pvl_translate.formats hold long-lived
    instances: drive them with histories and compare with re-imported tables."""
    import pvl.pvl_validate as pv
    import pvl.pvl_translate as pt
    rng = random.Random(f"C16-tables-{seed}")
    for rep in range(40 if tier == "quick" else 600):
        hb.beat()
        h = [rng.randrange(len(TEXTS)) for _ in range(rng.randint(2, 8))]
        live = dict(importlib.reload(pv).dialects)   # long-lived instances
        for step, ti in enumerate(h):
            text = TEXTS[ti]
            fresh_tables = dict(importlib.reload(pv).dialects)
            for name, decenc in live.items():
                got = observe_parse(pvl, decenc["parser"], text)
                want = observe_parse(pvl, fresh_tables[name]["parser"], text)
                rec.count("shared_table_steps_compared")
                if got != want:
                    rec.violation(
                        CHECK, "pvl_validate." + name, "shared-parser-carries-state",
                        {"what": "errors" if got[:2] == want[:2] else "other"},
                        {"dialect_row": name, "history": [TEXTS[i] for i in h[:step + 1]]},
                        f"{got!r:.200} vs {want!r:.200}")
                    return
        rec.case(("tables", tuple(h)), True)
    # formats: the same module written repeatedly through the shared writers
    col = pvl.collections
    mods = encoder_modules(pvl, rng)
    pt_live = importlib.reload(pt)
    for rep in range(30 if tier == "quick" else 300):
        for fname, writer in pt_live.formats.items():
            if fname == "JSON":
                continue
            m = rng.choice(mods)

            def dump(w):
                out = io.StringIO()
                try:
                    w.dump(clone(m), out)
                    return ("ok", out.getvalue())
                except Exception as e:
                    return ("exc", type(e).__name__, str(e)[:200])
            got = dump(writer)
            want = dump(type(writer)(type(writer.encoder)()))
            rec.count("shared_writer_steps_compared")
            if got != want:
                rec.violation(CHECK, "pvl_translate." + fname,
                              "shared-writer-carries-state", {},
                              {"format": fname, "module": repr(m)[:400]},
                              f"{got!r:.200} vs {want!r:.200}")
                return


def edited_between_calls(rec, pvl):
    """The caller keeps ONE module object, writes it, edits it in place and
    writes it again with the same encoder object: the second text is what a
    fresh encoder gives for (a copy of) the edited module."""
    col = pvl.collections

    def build():
        return col.PVLModule([("o", col.PVLObject([("k", 1)])),
                              ("g", col.PVLGroup([("a", 1)])), ("s", "x")])

    def e_scalar(m): m["o"] = 5                                   # noqa: E704
    def e_group(m): m["o"] = col.PVLGroup([("k", 1)])             # noqa: E704
    def e_swap(m): m["g"], m["s"] = m["s"], m["g"]                # noqa: E704
    def e_inner(m): m["g"]["a"] = [1, [2, [3, [4]]]]              # noqa: E704
    def e_name(m): m["g"]["a b"] = m["g"].pop("a")                # noqa: E704
    def e_string(m): m["s"] = 'say "x"\nplease'                   # noqa: E704
    def e_object(m): m["g"] = col.PVLObject([("a", 1)])           # noqa: E704

    edits = (e_scalar, e_group, e_swap, e_inner, e_name, e_string, e_object)
    for dialect in DIALECTS:
        for cfg in ({}, {"convert_group_to_object": False}
                    if dialect == "PDS3" else {"width": 30}):
            for edit in edits:
                for twice in (False, True):
                    try:
                        inst = make_encoder(pvl, dialect, cfg)
                    except TypeError:
                        continue
                    m = build()
                    observe_encode(inst, m, "encode", pvl, dialect, keep=True)
                    if twice:
                        observe_encode(inst, m, "encode", pvl, dialect, keep=True)
                    edit(m)
                    want = observe_encode(make_encoder(pvl, dialect, cfg), m, "encode",
                                          pvl, dialect)
                    got = observe_encode(inst, m, "encode", pvl, dialect, keep=True)
                    rec.count("modules_edited_in_place_between_calls")
                    rec.case((dialect, "edited", edit.__name__, twice, repr(cfg)), True)
                    if got != want:
                        rec.violation(
                            CHECK, dialect, "reused-encoder-differs-from-fresh",
                            {"what": "ok-vs-exc" if got[0] != want[0] else "text",
                             "state_is_outside_the_instance": False,
                             "module_edited_in_place_between_calls": True},
                            {"dialect": dialect, "cfg": cfg, "edit": edit.__name__,
                             "written_twice_before_the_edit": twice},
                            f"{got!r:.250} vs fresh {want!r:.250}")


def shard(i, n, tier, seed, rec, hb):
    pvl = common.import_pvl()
    mods, cfgs = encoder_setup(pvl, seed)
    makers = decoder_makers(pvl)

    def reference(req):
        if req[0] == "parse":
            _, reader, call, text = req
            return observe_parse(pvl, strict_parser(pvl, reader), text, call, reader)
        if req[0] == "encode":
            _, dialect, cfg_i, call, mi = req
            return observe_encode(make_encoder(pvl, dialect, cfgs[dialect][cfg_i]),
                                  mods[mi], call, pvl, dialect)
        _, name, fn, s = req
        return observe_decode(makers[name](), fn, s)

    # forked before this worker has parsed, written or decoded anything
    pristine = common.Pristine(reference)
    # (the pristine copy exists now; this worker itself may have a past)
    from .. import prelude
    rec.count("workers_with_a_hostile_history"
              if prelude.hostile_history(pvl, i) else "workers_starting_fresh")
    try:
        parser_histories(rec, hb, pvl, tier, seed, i, n, pristine)
        parser_soak(rec, hb, pvl, tier, seed, i, n, pristine)
        encoder_histories(rec, hb, pvl, tier, seed, i, n, pristine, mods, cfgs)
        shared_object_histories(rec, hb, pvl, tier, seed, i, n)
        decoder_histories(rec, hb, pvl, tier, seed, i, n, pristine)
        if i == 0:
            shared_tables(rec, hb, pvl, tier, seed)
        if i == 1 % n:
            edited_between_calls(rec, pvl)
    finally:
        pristine.close()


def finish_kwargs(rec, tier):
    return dict(
        extra_cov={"exhaustive": True,
                   "explanation": "exhaustive = all ordered pairs and triples "
                                  "over the 14 representative texts (parsers) "
                                  "and over the module set (encoders; every "
                                  "third history in the quick tier)"},
        required_counters=("modules_edited_in_place_between_calls", "parser_steps_compared", "encoder_steps_compared",
                           "soak_steps_compared", "earlier_results_looked_at_again",
                           "decoder_steps_compared", "shared_object_steps_compared",
                           "shared_table_steps_compared",
                           "shared_writer_steps_compared",
                           "pristine_process_references",
                           "parser_calls[loads+other]", "parser_calls[load]",
                           "encoder_calls[dumps+other]"),
        assumptions=["the reference for 'that text alone' is a fresh instance in "
                     "a process forked before the worker processed anything "
                     "(one fork per reference), so state kept in module globals "
                     "counts as carried state too"])


def replay(data):
    pvl = common.import_pvl()

    def reference(req):
        _, reader, call, text = req
        return observe_parse(pvl, strict_parser(pvl, reader), text, call, reader)

    pristine = common.Pristine(reference)
    bad = 0
    for w in data["witnesses"]:
        w = w["witness"]
        if "parser" in w:
            inst = strict_parser(pvl, w["parser"])
            for call, t in w["history"]:
                got = observe_parse(pvl, inst, t, call, w["parser"])
                want = pristine.ask(("parse", w["parser"], call, t))
                print(w["parser"], call, repr(t)[:60], "reused==fresh:", got == want)
                if got != want:
                    print("   reused:", repr(got)[:200])
                    print("   fresh :", repr(want)[:200])
                    bad += 1
        else:
            print(w)
            bad += 1
    pristine.close()
    return 1 if bad else 0
