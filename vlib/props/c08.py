"""C08 - missing values are tolerated by the default loader and located exactly.

From a well-formed generated document, the value tokens of a chosen subset of
assignments are removed; the text is rendered under random layouts, the
generator itself computes the 1-based line of every '='.  The default loader
must return every statement in order, an empty-string placeholder carrying
that line number for each chosen parameter, errors == sorted line numbers;
the strict PVL/ODL/PDS3 parsers must raise on such text."""
import random

from .. import common
from .. import gen_text as gt
from ..textrun import load

CHECK = "C08"
RULE = (
    "generated documents; every subset of assignments (k<=5 exhaustively, "
    "sampled beyond) has its value removed (top level, nested, first/last in "
    "a block, adjacent runs, before block keywords, ';', END, end of text); "
    "3 random layouts each (LF/CRLF lines, comments); the default loader "
    "called in 5 ways (fresh parser, pvl.loads(text), one long-lived parser "
    "per worker, caller's container classes derived from the defaults / built "
    "on the multi-dict). distinct = (seed, "
    "subset, layout); non-trivial = at least one value removed"
)
G = gt


def nshards(tier):
    return 16


def assignments(doc):
    """[(sid, [indexes of value tokens])] for assignment statements"""
    by = {}
    for i, t in enumerate(doc.tokens):
        by.setdefault(t.stmt, []).append(i)
    out = []
    for sid, idxs in by.items():
        if sid is None:
            continue
        first = doc.tokens[idxs[0]]
        if first.kind != G.NAME or first.cls != "param":
            continue
        vals = [i for i in idxs[2:] if doc.tokens[i].kind != G.SEMI or
                i != idxs[-1]]
        # drop a trailing ';' from the value token list
        if vals and doc.tokens[idxs[-1]].kind == G.SEMI:
            vals = [i for i in idxs[2:-1]]
        out.append((sid, vals, idxs[1]))
    return out


def preorder(tree, out):
    for i, (name, v) in enumerate(tree):
        out.append((tree, i))
        if isinstance(v, G.Block):
            preorder(v.items, out)
    return out


def clone_tree(tree):
    out = []
    for name, v in tree:
        if isinstance(v, G.Block):
            out.append((name, G.Block(v.kind, clone_tree(v.items))))
        else:
            out.append((name, v))
    return out


def follows_class(toks, i):
    if i >= len(toks):
        return "end-of-text"
    k = toks[i].kind
    return {G.SEMI: "delimiter", G.BEGIN: "begin-keyword", G.ENDKW: "end-keyword",
            G.END: "END", G.NAME: "next-statement"}.get(k, k)


def placeholders(module, out=None):
    out = [] if out is None else out
    for k, v in list(module):
        if isinstance(v, dict):
            placeholders(v, out)
        elif isinstance(v, str) and hasattr(v, "lineno"):
            out.append((k, v.lineno))
    return out


_STATE = {}


def default_load(pvl, text, how):
    """The default loader, called in one of the ways a caller may call it."""
    col = pvl.collections
    if how == "fresh-parser":
        return load(pvl, "default", text, parser=pvl.parser.OmniParser())
    if how == "long-lived-parser":
        # one OmniParser object for the life of the worker, as pvl_validate
        # keeps one: line numbers must not depend on the texts it saw before
        if "parser" not in _STATE:
            _STATE["parser"] = pvl.parser.OmniParser()
        return load(pvl, "default", text, parser=_STATE["parser"])
    if "classes" not in _STATE:
        # the caller's own container classes (same class names, so that the
        # tree comparison reads them like the defaults): subclasses of the
        # default classes, and classes built directly on the multi-dict
        _STATE["classes"] = {
            "subclasses": dict(
                module_class=type("PVLModule", (col.PVLModule,), {}),
                group_class=type("PVLGroup", (col.PVLGroup,), {}),
                object_class=type("PVLObject", (col.PVLObject,), {})),
            "own-classes": dict(
                module_class=type("PVLModule", (col.OrderedMultiDict,), {}),
                group_class=type("PVLGroup", (col.OrderedMultiDict,), {}),
                object_class=type("PVLObject", (col.OrderedMultiDict,), {})),
        }
    LexerError = pvl.exceptions.LexerError
    ParseError = pvl.exceptions.ParseError
    kw = {} if how == "loads(text)" else _STATE["classes"][how]
    try:
        with common.cpu_limit(30):
            return ("ok", pvl.loads(text, **kw))
    except LexerError as e:
        return ("LexerError", e)
    except ParseError as e:
        return ("ParseError", e)
    except common.CaseTimeout:
        return ("timeout", None)
    except Exception as e:
        return (type(e).__name__, e)


POISON = ["p =\nq =\nr = (1, 2\n", "\n\n\nx =\n\ny =\nGROUP = g\n z =\nEND_OBJECT\n",
          "a =\nb = 'unterminated\n", "k =\n\n\n\n\nm = \x01\n"]
HOWS = ("fresh-parser", "loads(text)", "long-lived-parser", "subclasses", "own-classes")


def case(rec, pvl, key, tier):
    rng = random.Random(key)
    while True:
        doc = gt.gen_document(rng, "default", max_top=5)
        # a sequence inside a set cannot be loaded at all (listed under C03)
        if not any(c == "seq-inside-set" for c, _ in doc.meta):
            break
    asg = assignments(doc)
    if not asg:
        return
    n = len(asg)
    subsets = []
    if n <= 5:
        for mask in range(1, 2 ** n):
            subsets.append([asg[i] for i in range(n) if mask >> i & 1])
    else:
        for _ in range(24):
            k = rng.randint(1, n)
            subsets.append(rng.sample(asg, k))
    order = preorder(doc.tree, [])
    for chosen in subsets:
        drop = set()
        for sid, vals, eqi in chosen:
            drop.update(vals)
        toks = [t for i, t in enumerate(doc.tokens) if i not in drop]
        eq_tokens = {id(doc.tokens[eqi]): sid for sid, vals, eqi in chosen}
        tree = clone_tree(doc.tree)
        order2 = preorder(tree, [])
        for sid, vals, eqi in chosen:
            lst, idx = order2[sid - 1]
            lst[idx] = (lst[idx][0], G.Missing())
        for li in range(3 if tier == "quick" else 5):
            seps = gt.gen_layout(rng, toks, "default", "lines")
            text, offs = gt.render_with_offsets(toks, seps)
            want_lines = {}
            for t, off in zip(toks, offs):
                if id(t) in eq_tokens:
                    want_lines[eq_tokens[id(t)]] = text.count("\n", 0, off) + 1
            for pos, t in enumerate(toks):
                if id(t) in eq_tokens:
                    rec.count(f"gap_followed_by[{follows_class(toks, pos + 1)}]")
            dash = "-\n" in text or "-\r" in text
            # an '=' inside a comment between the parameter's '=' and the next
            # token (the library searches backwards for the nearest '=')
            eq_in_gap = False
            for pos, t in enumerate(toks):
                if id(t) not in eq_tokens:
                    continue
                if "=" in seps[pos]:       # between the name and its '='
                    eq_in_gap = True
                j = pos + 1
                while j < len(toks):
                    if "=" in seps[j]:
                        eq_in_gap = True
                    if toks[j].kind == G.EQ:
                        break
                    j += 1
                else:
                    if "=" in seps[-1]:
                        eq_in_gap = True
            rec.case((key, tuple(sorted(s for s, _, _ in chosen)), li), True,
                     sample={"seed": key, "text": text[:400],
                             "expected_errors": sorted(want_lines.values())}
                     if rec.c["evaluations"] % 3001 == 0 else None)
            how = rng.choice(HOWS)
            rec.count(f"called[{how}]")
            if rng.random() < 0.3:
                # the same way of calling the loader first meets a text that has
                # missing values and then fails for good (nothing of it may
                # reach the load that is judged)
                default_load(pvl, rng.choice(POISON), how)
                rec.count("judged_load_preceded_by_a_failed_one")
            st, res = default_load(pvl, text, how)
            feats = {"dash_continuation_in_text": dash,
                     "equals_sign_in_comment_near_gap": eq_in_gap,
                     "adjacent_missing": any(
                         a[0] + 1 == b[0] for a in chosen for b in chosen),
                     "differs_from_fresh_default_parser": False}
            wit = {"seed": key, "text": text, "removed_statements":
                   sorted(s for s, _, _ in chosen), "called": how}
            if how != "fresh-parser" and st == "ok":
                # is it the text, or the way the loader was called?
                st0, res0 = default_load(pvl, text, "fresh-parser")
                same = st0 == "ok" and \
                    sorted(l for _, l in placeholders(res0)) == \
                    sorted(l for _, l in placeholders(res)) and \
                    getattr(res0, "errors", None) == getattr(res, "errors", None)
                if not same:
                    feats["differs_from_fresh_default_parser"] = how
            if st == "timeout":
                rec.inconc(f"CPU budget exceeded {key}")
                continue
            if st != "ok":
                rec.violation(CHECK, "default", "missing-value-not-tolerated",
                              {**feats, "lib": st}, wit, f"{st}: {res}"[:300])
                continue
            rec.count("default_loads_ok")
            diff = gt.same_tree(tree, res)
            if diff:
                rec.violation(CHECK, "default", "statements-or-values-differ",
                              feats, wit, f"{diff[0]}: {diff[1]}"[:300])
                continue
            want = sorted(want_lines.values())
            got_ph = sorted(l for _, l in placeholders(res))
            errs = getattr(res, "errors", None)
            if got_ph != want:
                rec.violation(CHECK, "default", "placeholder-line-numbers",
                              feats, wit, f"placeholders carry {got_ph}, the '=' "
                                          f"signs are on lines {want}")
            elif errs != want:
                rec.violation(CHECK, "default", "errors-attribute", feats, wit,
                              f"errors={errs!r}, expected {want}")
            else:
                rec.count("located_exactly")
    # strict parsers on their own documents with one or more values removed
    for reader in ("PVL", "ODL", "PDS3"):
        d2 = gt.gen_document(rng, reader, max_top=4)
        a2 = assignments(d2)
        if not a2:
            continue
        chosen = rng.sample(a2, rng.randint(1, min(3, len(a2))))
        drop = set()
        for sid, vals, eqi in chosen:
            drop.update(vals)
        toks = [t for i, t in enumerate(d2.tokens) if i not in drop]
        text = gt.render(toks, gt.gen_layout(rng, toks, reader, "lines"))
        st, res = load(pvl, reader, text)
        rec.count(f"strict_checked[{reader}]")
        rec.case((key, reader, "strict"), True)
        if st not in ("LexerError", "ParseError"):
            rec.violation(CHECK, reader, "strict-parser-accepts-missing-value",
                          {"lib": st}, {"reader": reader, "seed": key, "text": text},
                          f"{st}: {str(res)[:200]}")


def shard(i, n, tier, seed, rec, hb):
    pvl = common.import_pvl()
    total = 400 if tier == "quick" else 10000
    for j in range(i, total, n):
        hb.beat()
        case(rec, pvl, f"C08-{seed}-{j}", tier)


def finish_kwargs(rec, tier):
    req = ["located_exactly", "default_loads_ok",
           "gap_followed_by[next-statement]", "gap_followed_by[delimiter]",
           "gap_followed_by[end-keyword]", "gap_followed_by[begin-keyword]",
           "gap_followed_by[END]", "gap_followed_by[end-of-text]"]
    req += [f"strict_checked[{r}]" for r in ("PVL", "ODL", "PDS3")]
    req += [f"called[{h}]" for h in HOWS] + ["judged_load_preceded_by_a_failed_one"]
    return dict(required_counters=req,
                assumptions=["line number = number of LF characters before the "
                             "'=' plus one (layouts use LF / CRLF line ends "
                             "only); the default loader is called as a fresh "
                             "OmniParser, as pvl.loads(text), through one "
                             "long-lived OmniParser per worker, and with the "
                             "caller's own container classes"])


def replay(data):
    pvl = common.import_pvl()
    bad = 0
    for w in data["witnesses"]:
        w = w["witness"]
        st, res = load(pvl, w.get("reader", "default"), w["text"],
                       parser=pvl.parser.OmniParser() if "reader" not in w else None)
        print(repr(w["text"]))
        if st == "ok":
            print("  ->", list(res), "errors:", getattr(res, "errors", None),
                  "placeholders:", placeholders(res))
        else:
            print("  ->", st, str(res)[:200])
        bad += 1
    return 1 if bad else 0
