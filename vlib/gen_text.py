"""Document generator with free spelling and free layout (DESIGN 3.3).

gen_document(rng, dialect) -> Doc with
  .tokens   list of Tok (kind, text, ...)           - the token list
  .tree     expected tree, computed by the generator from the abstract values
            and the specification (never by the library)
  .meta     spelling classes / contexts seen (for the coverage matrix)
render(doc.tokens, seps) -> text ; gen_layout(rng, tokens, dialect, style)
produces the separator strings for every gap.
"""
import datetime as dt

from . import datespec
from .normalise import fold

READERS = ("PVL", "ODL", "PDS3", "ISIS", "default")
ODL_FAMILY_READ = ("ODL", "PDS3", "ISIS", "default")   # decoders that fold strings
HASH_COMMENTS = ("ISIS", "default")

# token kinds
NAME, EQ, VAL, LP, RP, LB, RB, COMMA, UNITS, SEMI, BEGIN, ENDKW, END = (
    "NAME", "EQ", "VAL", "LP", "RP", "LB", "RB", "COMMA", "UNITS", "SEMI",
    "BEGIN", "ENDKW", "END")
DAMAGED = "DAMAGED"   # an unterminated / stray lexical element (fault injection)


class Missing:
    """Expected value of a parameter whose value is absent (C08)."""

    def __repr__(self):
        return "<missing value>"


class Tok:
    __slots__ = ("kind", "text", "cls", "quoted", "stmt", "value")

    def __init__(self, kind, text, cls=None, quoted=False, stmt=None,
                 value=None):
        self.kind, self.text, self.cls, self.quoted, self.stmt = \
            kind, text, cls, quoted, stmt
        self.value = value

    def __repr__(self):
        return f"{self.kind}:{self.text!r}"


class Q:
    """Expected quantity (value, units)."""
    __slots__ = ("value", "units")

    def __init__(self, value, units):
        self.value, self.units = value, units

    def __repr__(self):
        return f"Q({self.value!r}, {self.units!r})"


class Block:
    __slots__ = ("kind", "items")

    def __init__(self, kind, items):
        self.kind, self.items = kind, items

    def __repr__(self):
        return f"{self.kind}{self.items!r}"


class Doc:
    def __init__(self):
        self.tokens = []
        self.tree = []
        self.meta = set()        # (spelling class, context)
        self.n_statements = 0


WORDS = ["alpha", "Beta", "GAMMA", "x", "Mars", "orbit", "a1", "N_2", "km", "Z9",
         # (pieces of the keywords: words, not keywords)
         "n", "l", "nul", "ull", "tru", "fals", "e", "en", "nd", "obj", "grou"]
PVL_WORDS = WORDS + ["a.b", "ns:id", "x-y", "v1.2", "a_", "B:2", "v-", "item-"]
NAMES_PVL = ["a", "key", "Name", "LONG_NAME", "x1", "a.b", "ns:id", "^ptr", "k-2"]
NAMES_ODL = ["a", "key", "Name", "LONG_NAME", "x1", "ns:id", "^ptr", "K2"]


def casevar(rng, s):
    r = rng.random()
    if r < 0.4:
        return s
    if r < 0.6:
        return s.lower()
    if r < 0.8:
        return s.capitalize() if "_" not in s else \
            "_".join(p.capitalize() for p in s.split("_"))
    return "".join(c.upper() if rng.random() < 0.5 else c.lower() for c in s)


# --------------------------------------------------------------------------
# simple values: returns (text, expected, cls, quoted)
# --------------------------------------------------------------------------
def sv_int(rng):
    sign = rng.choice(("", "", "-", "+"))
    digits = rng.choice(("0", "7", "42", "007", "123456789012345678901", "10"))
    return sign + digits, int(sign + digits), \
        "int:" + ("plus" if sign == "+" else "minus" if sign == "-" else "plain"), False


def _digits_for(rng, radix, n):
    alphabet = "0123456789ABCDEF"[:radix]
    s = "".join(rng.choice(alphabet) for _ in range(n))
    if rng.random() < 0.3 and radix > 10:
        s = s.lower()
    return s


def sv_based(rng, reader):
    sign = rng.choice(("", "", "-", "+"))
    if reader in ("PVL", "ISIS"):
        radix = rng.choice((2, 8, 16))
        form = "pvl"
    elif reader in ("ODL", "PDS3"):
        radix = rng.choice((2, 3, 8, 10, 12, 16))
        form = "odl"
    else:
        radix = rng.choice((2, 3, 8, 10, 12, 16))
        form = rng.choice(("pvl", "odl"))
    digits = _digits_for(rng, radix, rng.randint(1, 6))
    value = int(digits, radix) * (-1 if sign == "-" else 1)
    if form == "pvl":
        text = f"{sign}{radix}#{digits}#"
    else:
        text = f"{radix}#{sign}{digits}#"
    return text, value, f"based:{form}:" + \
        ("plus" if sign == "+" else "minus" if sign == "-" else "plain"), False


def sv_real(rng):
    sign = rng.choice(("", "", "-", "+"))
    form = rng.choice(("d.d", "d.", ".d", "d.dEd", "dEd", ".dE+d", "d.E-d", "d.de+d"))
    d1 = rng.choice(("0", "1", "12", "3"))
    d2 = rng.choice(("5", "25", "0", "001"))
    e = rng.choice(("2", "02", "10"))
    if rng.random() < 0.04:
        e = rng.choice(("400", "999"))     # beyond what a float holds
    body = {
        "d.d": f"{d1}.{d2}", "d.": f"{d1}.", ".d": f".{d2}",
        "d.dEd": f"{d1}.{d2}E{e}", "dEd": f"{d1}E{e}", ".dE+d": f".{d2}E+{e}",
        "d.E-d": f"{d1}.E-{e}", "d.de+d": f"{d1}.{d2}e+{e}",
    }[form]
    text = sign + body
    return text, float(text), "real:" + form + ":" + \
        ("plus" if sign == "+" else "minus" if sign == "-" else "plain"), False


def sv_keyword(rng):
    base, val = rng.choice((("NULL", None), ("TRUE", True), ("FALSE", False)))
    return casevar(rng, base), val, "keyword", False


FLOAT_WORDS = ["inf", "nan", "Infinity", "NaN", "INF"]


# Words that only LOOK like numbers, dates or times: their digits are not the
# ASCII digits of the grammars (Python's int(), float(), strptime() and \d
# take them all the same).  Only the permissive grammar admits the characters;
# there they are unquoted strings.
DIGIT_LOOKALIKES = ["\uff12\uff10\uff10\uff11-01-01", "1\uff12:00", "12:0\u0663:00Z",
                    "12:00:0\u0660.5", "\u0663", "1\u0663", "1.\u0665", "\u00b2", "2001-00\u0661",
                    "\uff11\uff12", "2001-01-0\u0661T12:00", "12:00+0\u0665", "\u0661\u0662:\u0660\u0660",
                    "2001-\u0660\u0661-01", "\u0967\u0968", "1\u0967e5", "\u00bd", "\u2460", "23:59:6\u0660", "\uff0b5", "\u22125",
                    # ... and words that only casefold / upper-case to a keyword
                    "fal\u017fe", "FAL\u017fE", "beg\u0131n_group", "BEG\u0131N_OBJECT",
                    "end_\u0261roup", "\uff4e\uff55\uff4c\uff4c", "tr\u1e9ee"]


# Words made of characters that Python takes for white space (str.isspace,
# str.split) but that are ordinary characters of the dialect: U+00A0 is in the
# PVL / ISIS character set and is not one of PVL's white-space characters; the
# permissive grammar admits them all.
SPACE_LOOKALIKES = {"PVL": ["\xa0", "\xa0\xa0", "x\xa0"], "ISIS": ["\xa0", "\xa0x"],
                    "default": ["\xa0", "\u2003", "\x1c", "\x85", "\u3000\u2003",
                                "\x1f\x1e", "\u2028"]}


def sv_unquoted(rng, reader):
    pool = WORDS if reader in ("ODL", "PDS3") else PVL_WORDS
    if reader in SPACE_LOOKALIKES and rng.random() < 0.03:
        w = rng.choice(SPACE_LOOKALIKES[reader])
        return w, w, "unquoted:space-lookalike", False
    if reader == "default" and rng.random() < 0.07:
        w = rng.choice(DIGIT_LOOKALIKES)
        return w, w, "unquoted:digit-lookalike", False
    if rng.random() < 0.08:
        # identifiers that Python's float() would accept: the grammars class
        # them as unquoted strings / identifiers
        w = rng.choice(FLOAT_WORDS)
        return w, w, "unquoted:float-word", False
    w = rng.choice(pool)
    return w, w, "unquoted", False


LINE_START_HAZARDS = ["#5", "#", "# note", "/*", "*/", "/* c */", "END", "End",
                      "END_GROUP", "=", "x=1", "GROUP = g", "-", "--", "(", ")",
                      "{", "}", ";", "&", "item-", "flat-field", "<m>", ","]


def sv_quoted(rng, reader):
    q = rng.choice("\"'")
    other = "'" if q == '"' else '"'
    r = rng.random()
    w = lambda: rng.choice(WORDS)  # noqa: E731
    if r < 0.06:
        # long text with runs of spaces (wrapped by the ODL-family encoders)
        words = [w() for _ in range(rng.randint(12, 30))]
        content = words[0]
        for x in words[1:]:
            content += rng.choice((" ", " ", "  ", "   ")) + x
        cls = "quoted:long-with-space-runs"
    elif r < 0.1:
        # long text in which every few words would mean something if a wrap
        # put them at the start of a line (comment openers, keywords, '=')
        words = []
        for _ in range(rng.randint(14, 30)):
            words.append(rng.choice(LINE_START_HAZARDS) if rng.random() < 0.4
                         else w())
        words = [x for x in words if q not in x]
        content = (w() + " " + " ".join(words)).strip()
        cls = "quoted:long-with-line-start-hazard-words"
    elif r < 0.13:
        # characters that Python's str.split()/isspace() treat as white space
        # but the dialects do not: they are ordinary string characters
        pool = {"default": "\xa0\x85\x1c\x1d\x1e\x1f\u2028\u3000",
                "ISIS": "\xa0", "PVL": "\xa0",
                "ODL": "\x1c\x1d\x1e\x1f", "PDS3": "\x1c\x1d\x1e\x1f"}[reader]
        c = rng.choice(pool)
        content = rng.choice((f"{w()}{c}{w()}", f"{w()}{c}", f"{c}{w()}",
                              f"1{c}000{c}km", f"{w()} {c} {w()}"))
        cls = "quoted:python-space-that-is-not-pvl-space"
    elif r < 0.2:
        content, cls = "", "quoted:empty"
    elif r < 0.4:
        content, cls = w(), "quoted:word"
    elif r < 0.55:
        content, cls = f"{w()} {w()} {w()}", "quoted:spaces"
    elif r < 0.6:
        content, cls = rng.choice((f" {w()} ", f"  {w()}", f"{w()}  ", f"{w()}\t{w()}",
                                   " ", f"{w()}   {w()}")), "quoted:outer-or-run-spaces"
    elif r < 0.7:
        content, cls = f"it{other}s {w()}", "quoted:other-quote"
    elif r < 0.8:
        content, cls = rng.choice(("NULL", "12", "2001-01-01", "END", "1.5e3",
                                   "group", "12:00", "20010101T120000", "2004-W10",
                                   "2001-01-01T12", "20010101", "2001-01",
                                   "12:00:00,5", "T12:00", "2001-001T1200",
                                   "inf", "0x1F", "1_000")), "quoted:value-like"
    elif r < 0.88:
        content, cls = rng.choice(("a=b", "(x)", "{y}", "a,b", "<m>", "a;b", "#h",
                                   "/* c */", "a+b")), "quoted:reserved"
    elif r < 0.91:
        content, cls = f"{w()}\n  {w()}", "quoted:linebreak"
    elif r < 0.94:
        kw = rng.choice(("END", "end", "End;", "END_GROUP", "GROUP = x", "# c"))
        content, cls = f"{w()}\n{kw}\n{w()}", "quoted:keyword-on-own-line"
    elif r < 0.985:
        content, cls = f"{w()}-\n   {w()}", "quoted:dash-continuation"
    else:
        # many dash continuations in one string
        # (LF only: a reader that keeps strings verbatim would show whether
        # the text came through a file opened in text mode)
        content = w() + "".join(rng.choice(("-\n", "-\n   ", "-\n ")) + w()
                                for _ in range(rng.randint(9, 14)))
        cls = "quoted:many-dash-continuations"
    expected = fold(content) if reader in ODL_FAMILY_READ else content
    return q + content + q, expected, cls, True


def sv_temporal(rng, reader):
    d = dt.date(rng.choice((1999, 2000, 2024)), rng.randint(1, 12), rng.randint(1, 28))
    if datespec.KEEPS_LEAP_AS_TEXT[reader] and rng.random() < 0.12:
        # seconds = 60: kept as text by PVL, ISIS and the default loader
        t = datespec.render_time(rng.randint(0, 23), rng.randint(0, 59), 60,
                                 rng.choice(("", "5", "123")), rng.choice(("", "Z")))
        text = t if rng.random() < 0.5 else \
            datespec.render_date(d, rng.choice(("ymd", "doy"))) + "T" + t
        return text, text, "temporal:leap", False
    kind = rng.choice(("date", "time", "datetime"))
    dform = rng.choice(("ymd", "doy"))
    if kind == "date":
        text = datespec.render_date(d, dform)
    else:
        s = rng.choice((None, 0, 59, 7))
        f = rng.choice(("", "", "5", "123", "250000")) if s is not None else ""
        zones = ["", "Z"]
        if datespec.ACCEPTS_OFFSET[reader]:
            zones += ["+05", "-03:30", "+1", "-00:30", "+00:30", "-0:45", "-00:01",
                      "-11:59", "+12:45"]
        t = datespec.render_time(rng.randint(0, 23), rng.randint(0, 59), s, f,
                                 rng.choice(zones))
        text = t if kind == "time" else datespec.render_date(d, dform) + "T" + t
    exp = datespec.read(text, reader)
    if exp[0] not in ("date", "time", "datetime"):
        return sv_int(rng)
    return text, exp[1], f"temporal:{kind}", False


def gen_simple(rng, reader):
    r = rng.random()
    if r < 0.18:
        return sv_int(rng)
    if r < 0.30:
        return sv_based(rng, reader)
    if r < 0.46:
        return sv_real(rng)
    if r < 0.54:
        return sv_keyword(rng)
    if r < 0.68:
        return sv_unquoted(rng, reader)
    if r < 0.90:
        return sv_quoted(rng, reader)
    return sv_temporal(rng, reader)


UNIT_STRINGS = ["m", "km/s", "m**2", "KM/(S**2)", "deg", "m / s"]


def gen_units_tok(rng):
    u = rng.choice(UNIT_STRINGS)
    pad = rng.choice(("", "", " ", "  "))
    pad2 = rng.choice(("", "", " "))
    return Tok(UNITS, f"<{pad}{u}{pad2}>"), u


# --------------------------------------------------------------------------
# values (with tokens)
# --------------------------------------------------------------------------
def gen_value(rng, reader, doc, toks, ctx, depth=0, allow_units=True,
              in_set=False):
    """Append the tokens of one value to *toks*; return the expected value."""
    r = rng.random()
    odl = reader in ("ODL", "PDS3")
    if r < 0.68 or depth >= (2 if odl else 4):
        text, exp, cls, quoted = gen_simple(rng, reader)
        toks.append(Tok(VAL, text, cls, quoted, value=exp))
        doc.meta.add((cls.split(":")[0] + ":" + cls.split(":")[1]
                      if ":" in cls else cls, ctx))
        numeric = cls.startswith(("int", "based", "real"))
        if allow_units and rng.random() < (0.25 if numeric else 0.08) and \
                (numeric or not odl):
            ut, u = gen_units_tok(rng)
            toks.append(ut)
            doc.meta.add(("units-after:" + cls.split(":")[0], ctx))
            return HQ(exp, u) if in_set else Q(exp, u)
        return exp
    if depth == 0 and not in_set and rng.random() < 0.04:
        # a long sequence of short multi-word strings: every encoder has to
        # wrap it, and the wrap points fall next to dashes and quotes
        toks.append(Tok(LP, "("))
        items = []
        for i in range(rng.randint(8, 16)):
            if i:
                toks.append(Tok(COMMA, ","))
            a, b = rng.choice(WORDS), rng.choice(WORDS)
            content = rng.choice((f"{a} - {b}", f"{a}- {b}", f"{a} {b}", f"{a} -{b}",
                                  f"{a}_{b}", f"{a} {b} {a}"))
            q = rng.choice("\"'")
            exp = fold(content) if reader in ODL_FAMILY_READ else content
            toks.append(Tok(VAL, q + content + q, "quoted:words-with-dash", True,
                            value=exp))
            items.append(exp)
        toks.append(Tok(RP, ")"))
        doc.meta.add(("seq-of-dashed-strings", ctx))
        return items
    # inside a set: nested sets, and (rarely) a sequence, which the result can
    # only hold as some hashable sequence type
    seq_in_set = in_set and not odl and rng.random() < 0.25
    is_set = (r > 0.86 or in_set) and not seq_in_set
    if odl and is_set and depth > 0:
        is_set = False
    toks.append(Tok(LB if is_set else LP, "{" if is_set else "("))
    n = rng.choice((0, 1, 2, 3, 4)) if not odl else rng.choice((1, 2, 3, 4))
    items = []
    for i in range(n):
        if i:
            toks.append(Tok(COMMA, ","))
        pos = "first" if i == 0 else "last" if i == n - 1 else "middle"
        c2 = ("set-" if is_set else "seq-") + pos
        if is_set and odl:
            # ODL sets hold scalars only
            text, exp, cls, quoted = gen_simple(rng, reader)
            toks.append(Tok(VAL, text, cls, quoted, value=exp))
            doc.meta.add((cls, c2))
            items.append(exp)
        else:
            items.append(gen_value(rng, reader, doc, toks, c2, depth + 1,
                                   allow_units=True,
                                   in_set=is_set or seq_in_set))
    toks.append(Tok(RB if is_set else RP, "}" if is_set else ")"))
    doc.meta.add(("set" if is_set else "seq", ctx))
    if seq_in_set:
        doc.meta.add(("seq-inside-set", ctx))
        return SeqInSet(items)
    value = frozenset(items) if is_set else items
    if allow_units and not odl and not in_set and rng.random() < 0.06:
        ut, u = gen_units_tok(rng)
        toks.append(ut)
        doc.meta.add(("units-after:" + ("set" if is_set else "seq"), ctx))
        return Q(value, u)
    return value


def _hashable(x):
    if isinstance(x, list):
        raise TypeError
    if isinstance(x, Q):
        return HQ(_hashable(x.value), x.units)
    return x


class SeqInSet(tuple):
    """expected sequence that is an element of a set"""


class HQ(tuple):
    """hashable expected quantity inside a set"""

    def __new__(cls, value, units):
        return tuple.__new__(cls, (value, units))

    value = property(lambda s: s[0])
    units = property(lambda s: s[1])


# --------------------------------------------------------------------------
# statements and documents
# --------------------------------------------------------------------------
KEYWORD_LOOKALIKE_NAMES = ["beg\u0131n_group", "BEG\u0131N_OBJECT", "fal\u017fe",
                           "\uff27\uff32\uff2f\uff35\uff30", "ob\u0458ect",
                           # ... and names holding characters that only Python
                           # takes for white space
                           "n\xa0me", "\x1ck", "k\u2003", "a\x85b"]


def gen_name(rng, reader):
    if reader == "default" and rng.random() < 0.04:
        # names that only casefold / upper-case / look like a keyword
        return rng.choice(KEYWORD_LOOKALIKE_NAMES)
    return rng.choice(NAMES_ODL if reader in ("ODL", "PDS3") else NAMES_PVL)


def gen_statements(rng, reader, doc, toks, tree, depth, n):
    for _ in range(n):
        if depth == 0 and getattr(doc, "_open", None) is not None:
            doc.top.append((doc._open, len(toks)))
        if depth == 0:
            doc._open = len(toks)
        doc.n_statements += 1
        sid = doc.n_statements
        name = gen_name(rng, reader)
        if tree and rng.random() < 0.06:
            # the name of an earlier statement of this block in another
            # letter case (names are case-sensitive to every reader)
            other = rng.choice(tree)[0]
            # (only where swapping the case is its own inverse: 'ı'.swapcase()
            # is 'I', which would turn a look-alike into the real keyword)
            if other.isascii():
                name = other.swapcase()
        if rng.random() < 0.22 and depth < 3:
            kind = rng.choice(("group", "object"))
            base = kind.upper()
            kws = [base] if reader == "ISIS" else [base, "BEGIN_" + base]
            bkw = casevar(rng, rng.choice(kws))
            toks.append(Tok(BEGIN, bkw, kind, stmt=sid))
            toks.append(Tok(EQ, "=", stmt=sid))
            toks.append(Tok(NAME, name, "blockname", stmt=sid))
            if rng.random() < 0.3:
                toks.append(Tok(SEMI, ";", stmt=sid))
            sub = []
            gen_statements(rng, reader, doc, toks, sub, depth + 1,
                           rng.choice((0, 1, 2, 3)))
            toks.append(Tok(ENDKW, casevar(rng, "END_" + base), kind, stmt=sid))
            if rng.random() < 0.5:
                toks.append(Tok(EQ, "=", stmt=sid))
                toks.append(Tok(NAME, name, "blockname", stmt=sid))
                doc.meta.add(("end-with-name", "block"))
            else:
                doc.meta.add(("end-without-name", "block"))
            if rng.random() < 0.3:
                toks.append(Tok(SEMI, ";", stmt=sid))
            tree.append((name, Block(kind, sub)))
            doc.meta.add(("begin:" + ("BEGIN_" if bkw.upper().startswith("BEGIN_")
                                      else "plain"), "block"))
        else:
            toks.append(Tok(NAME, name, "param", stmt=sid))
            toks.append(Tok(EQ, "=", stmt=sid))
            vt = []
            exp = gen_value(rng, reader, doc, vt, "top")
            for t in vt:
                t.stmt = sid
            toks.extend(vt)
            if rng.random() < 0.35:
                toks.append(Tok(SEMI, ";", stmt=sid))
                doc.meta.add(("statement-delimiter", "assign"))
            tree.append((name, exp))


def gen_document(rng, reader, max_top=6):
    doc = Doc()
    doc.top = []
    doc._open = None
    gen_statements(rng, reader, doc, doc.tokens, doc.tree, 0,
                   rng.randint(1, max_top))
    doc.top.append((doc._open, len(doc.tokens)))
    r = rng.random()
    if r < 0.6:
        doc.tokens.append(Tok(END, casevar(rng, "END")))
        if r < 0.2:
            doc.tokens.append(Tok(SEMI, ";"))
        doc.meta.add(("END-present", "module"))
    else:
        doc.meta.add(("END-absent", "module"))
    return doc


# --------------------------------------------------------------------------
# layout
# --------------------------------------------------------------------------
WORDLIKE = (NAME, VAL, BEGIN, ENDKW, END)


def gap_optional(a, b):
    """May the separator between tokens a and b be empty?"""
    if a.kind == UNITS:
        return False                      # white space is required after <...>
    if a.kind in WORDLIKE and b.kind in WORDLIKE:
        # two word-like tokens need a separator, unless the first one is a
        # quoted string (its closing quote ends the lexeme)
        return a.kind == VAL and a.quoted
    return True


WS_ATOMS = [" ", " ", " ", "\t", "\n", "\n", "\r\n", "\r", "\f", "\v", "  ", "\n  ",
            " \n", "\t \t"]
LINE_ATOMS = [" ", " ", "\t", "\n", "\n", "\r\n", "  ", "\n  ", " \n", "\n\n",
              "\f", "\v", " \f "]   # FF / VT are white space, not line ends
COMMENT_BODIES = ["", " c ", "*", " * ", "/", " a/b ", "#", " # x ", " \"q\" ", " 'q ",
                  " line1\n line2 ", "**", " = ", " END ", " (1, 2) ", "x*y", " /x ",
                  "<u>", ";"]
HASH_BODIES = ["", " c", " c = 1", " 'q", " \"q", " a * b", " a / b", " END", " (x",
               " /* x", " x */", " a /* b */ c"]


def gen_sep(rng, dialect, optional, style, prev_tok, next_tok, hazards=True):
    """One separator string.  style: 'plain' (single space / newline after a
    statement) or 'wild'."""
    if style == "plain":
        return " "
    if optional and rng.random() < 0.35:
        return ""
    parts = []
    n = rng.choice((1, 1, 1, 2, 3))
    atoms = LINE_ATOMS if style == "lines" else WS_ATOMS
    for i in range(n):
        r = rng.random()
        if r < 0.70:
            parts.append(rng.choice(atoms))
        elif r < 0.92 or dialect not in HASH_COMMENTS:
            parts.append("/*" + rng.choice(COMMENT_BODIES) + "*/")
        else:
            # '#' comment: set off by white space, ends with a line break
            body = rng.choice(HASH_BODIES)
            parts.append(" #" + body + "\n")
    s = "".join(parts)
    if not optional and s == "":
        s = " "
    if dialect in HASH_COMMENTS and prev_tok is not None:
        # documented dash continuation: a token ending in '-' must not be
        # followed directly by a line break
        if prev_tok.text.endswith("-") and s[:1] in ("\n", "\r", "\f"):
            s = " " + s
    return s


def gen_layout(rng, tokens, dialect, style="wild"):
    seps = [""]
    if style != "plain" and rng.random() < 0.5:
        seps[0] = gen_sep(rng, dialect, True, style, None, tokens[0])
    for a, b in zip(tokens, tokens[1:]):
        seps.append(gen_sep(rng, dialect, gap_optional(a, b), style, a, b))
    tail = ""
    if style != "plain":
        tail = gen_sep(rng, dialect, True, style, tokens[-1], None)
    else:
        tail = "\n"
    seps.append(tail)
    return seps


def render(tokens, seps):
    out = [seps[0]]
    for t, s in zip(tokens, seps[1:]):
        out.append(t.text)
        out.append(s)
    return "".join(out)


def render_with_offsets(tokens, seps):
    """text and the character offset of every token"""
    out, offs, n = [seps[0]], [], len(seps[0])
    for t, s in zip(tokens, seps[1:]):
        offs.append(n)
        out.append(t.text)
        out.append(s)
        n += len(t.text) + len(s)
    return "".join(out), offs


def plain_layout(tokens):
    """Single spaces inside a statement, a line break after each statement."""
    seps = [""]
    for a, b in zip(tokens, tokens[1:]):
        if a.kind == SEMI or (b.stmt != a.stmt and b.kind != SEMI):
            # (a dash directly before a line break is a continuation to the
            # ISIS and default readers: keep a blank between them)
            seps.append(" \n" if a.text.endswith("-") else "\n")
        else:
            seps.append(" ")
    seps.append(" \n" if tokens and tokens[-1].text.endswith("-") else "\n")
    return seps


# --------------------------------------------------------------------------
# comparing the expected tree with what a loader returned
# --------------------------------------------------------------------------
def same_value(exp, got, path="$"):
    """None if equal (types included), else (path, why)."""
    if isinstance(exp, Block):
        return (path, "block expected")
    if isinstance(exp, Missing):
        ok = isinstance(got, str) and got == "" and hasattr(got, "lineno")
        return None if ok else (path, f"expected an empty-value placeholder, "
                                      f"got {got!r}")
    if isinstance(exp, (Q, HQ)):
        if type(got).__name__ != "Quantity":
            return (path, f"expected quantity {exp!r}, got {got!r}")
        if str(got.units) != exp.units:
            return (path, f"units {got.units!r} != {exp.units!r}")
        return same_value(exp.value, got.value, path + ".value")
    if isinstance(exp, SeqInSet):
        if not isinstance(got, (list, tuple)) or len(got) != len(exp):
            return (path, f"expected sequence {exp!r}, got {got!r}")
        for i, (e, g) in enumerate(zip(exp, got)):
            r = same_value(e, g, f"{path}[{i}]")
            if r:
                return r
        return None
    if isinstance(exp, list):
        if type(got) is not list or len(got) != len(exp):
            return (path, f"expected sequence {exp!r}, got {got!r}")
        for i, (e, g) in enumerate(zip(exp, got)):
            r = same_value(e, g, f"{path}[{i}]")
            if r:
                return r
        return None
    if isinstance(exp, frozenset):
        if not isinstance(got, (set, frozenset)):
            return (path, f"expected set {exp!r}, got {got!r}")
        ce = sorted(_canon(e) for e in exp)
        cg = sorted(_canon(g) for g in got)
        if ce != cg:
            return (path, f"set {sorted(ce)!r} != {sorted(cg)!r}")
        return None
    if exp is None or isinstance(exp, bool):
        return None if got is exp else (path, f"expected {exp!r}, got {got!r}")
    if isinstance(exp, int):
        return None if type(got) is int and got == exp else \
            (path, f"expected int {exp!r}, got {got!r} ({type(got).__name__})")
    if isinstance(exp, float):
        return None if type(got) is float and repr(got) == repr(exp) else \
            (path, f"expected float {exp!r}, got {got!r} ({type(got).__name__})")
    if isinstance(exp, str):
        return None if isinstance(got, str) and type(got).__name__ in ("str",) \
            and got == exp else \
            (path, f"expected str {exp!r}, got {got!r} ({type(got).__name__})")
    if isinstance(exp, (dt.datetime, dt.time)):
        ok = type(got) is type(exp) and got.replace(tzinfo=None) == \
            exp.replace(tzinfo=None) and (
                (got.tzinfo is None) == (exp.tzinfo is None)) and (
                exp.tzinfo is None or got.utcoffset() == exp.utcoffset())
        return None if ok else (path, f"expected {exp!r}, got {got!r}")
    if isinstance(exp, dt.date):
        return None if type(got) is dt.date and got == exp else \
            (path, f"expected {exp!r}, got {got!r}")
    return (path, f"unhandled expected {exp!r}")


def _canon(v):
    if isinstance(v, (SeqInSet, list)) or (type(v) is tuple):
        return ("seq", tuple(_canon(x) for x in v))
    if isinstance(v, (Q, HQ)) or type(v).__name__ == "Quantity":
        return ("q", _canon(v.value), str(v.units))
    if isinstance(v, (set, frozenset)):
        return ("set", tuple(sorted(_canon(x) for x in v)))
    if isinstance(v, float):
        return ("float", repr(v))
    if isinstance(v, (dt.datetime, dt.time)):
        return (type(v).__name__, v.replace(tzinfo=None).isoformat(),
                None if v.tzinfo is None else v.utcoffset().total_seconds())
    return (type(v).__name__, repr(v))


def same_tree(tree, module, path="$"):
    items = list(module)
    if len(items) != len(tree):
        return (path, f"{len(tree)} statements expected "
                      f"{[n for n, _ in tree]}, loader returned {len(items)} "
                      f"{[k for k, _ in items]}")
    for i, ((name, exp), (k, v)) in enumerate(zip(tree, items)):
        p = f"{path}[{i}]{name}"
        if str(k) != name:
            return (p, f"name {k!r}")
        if isinstance(exp, Block):
            want = "PVLGroup" if exp.kind == "group" else "PVLObject"
            if type(v).__name__ != want:
                return (p, f"container {type(v).__name__}, expected {want}")
            r = same_tree(exp.items, v, p)
        else:
            if isinstance(v, dict):
                return (p, f"container where value {exp!r} expected")
            r = same_value(exp, v, p)
        if r:
            return r
    return None
