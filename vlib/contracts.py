"""icontract invariants attached from the harness to the real container class.

Nothing in /repo is edited: `icontract.invariant(cond, error=...)(cls)` patches
the public methods of the imported class object, so subclasses (PVLModule,
PVLGroup, PVLObject) and every caller inside pvl (parser, encoder) run under
the invariant too.
"""
import traceback

from . import common
from .mdmodel import storage_agrees

STATE = {"evaluations": 0, "breaks": [], "mode": "raise", "installed": False}


class InvariantBroken(BaseException):
    """Deliberately not an Exception: pvl swallows Exception in places."""


def two_views_agree(self):
    STATE["evaluations"] += 1
    ok = storage_agrees(self)
    if not ok:
        if len(STATE["breaks"]) < 20:
            STATE["breaks"].append(
                {
                    "cls": type(self).__name__,
                    "list": repr(list(self))[:300],
                    "dict": repr({k: dict.__getitem__(self, k)
                                  for k in dict.keys(self)})[:300],
                    "stack": [
                        f"{f.name}:{f.lineno}"
                        for f in traceback.extract_stack()[-12:-1]
                        if "icontract" not in f.filename
                    ][-6:],
                }
            )
        if STATE["mode"] == "record":
            return True
    return ok


def _error(self):
    return InvariantBroken(
        f"dict storage and item list disagree on {type(self).__name__}"
    )


def install(mode="raise"):
    """Attach the invariant to pvl.collections.OrderedMultiDict (idempotent)."""
    STATE["mode"] = mode
    if STATE["installed"]:
        return
    common.ensure_deps()
    import icontract

    pvl = common.import_pvl()
    cls = pvl.collections.OrderedMultiDict
    icontract.invariant(two_views_agree, error=_error)(cls)
    STATE["installed"] = True
