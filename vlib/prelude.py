"""A hostile process history.

Every check judges its cases against an oracle that does not depend on what
the process did before.  Code under test may: anything the library parks in
module globals or class attributes (memos keyed too coarsely, tables built on
first use and inherited by sub-classes, instances lent from one call to the
next) only shows in a process that has already used *another* dialect,
configuration or instance.  So every second worker of a check first lives
through a history of ordinary, legal calls - all dialects in an order that
depends on the shard, customised decoders and containers, refusals and
failures in the middle of nested values - and only then starts its workload.
Nothing is judged here; results and exceptions are thrown away.
"""
import datetime as dt
import decimal
import fractions
import io

from . import common

TEXTS = [
    "a = 1\nb = 2.5\nc = (1, 2.0, -.5E+1) <m>\nEND\n",
    "BEGIN_GROUP = g\n x = 16#FF#\n y = {a, 'b c', \"d\"}\nEND_GROUP = g\nEND\n",
    "Object = o\n Group = g\n  k = 2#101#\n End_Group\nEnd_Object\n# note\nname = v # c\nEnd\n",
    "t1 = 12:00:60\nt2 = 2016-12-31T23:59:60Z\nt3 = 23:59:60.5\nEND\n",
    "t1 = 12:00:00+05\nt2 = 2001-001T01:02:03.5-05:30\nt3 = 10:00Z\nd = 2001-01-01\nEND\n",
    "a =\nb = 2\nc =\nGROUP = g\n d =\nEND_GROUP\nEND\n",
    "s = 'unterminated\n",
    "k = (1, 2\n",
    "k = 5 <unclosed\n",
    "a = \x01\n",
    "a = caf\xe9\nb = \"Δv\"\nEND\n",
    "x = 1e400\ny = 1E1000000000000000000\nz = " + "9" * 50 + "\nEND\n",
    "/* c */ a = 1 /* d */ ; b = \"two\n  lines\" ; END ;",
    "a = NULL\nb = TRUE\nc = false\nd = Null\nEND\n",
    "a = -\nb = v-\n  w\nEND\n",
    "GROUP = g\n a = 1\nEND_OBJECT\n",
    "a = 1 = 2\n",
    "",
]
STRINGS = ["12:00:60", "23:59:60.5Z", "2016-12-31T23:59:60", "12:00+05", "12:00-0530",
           "2001-366", "1.5", "1_0", "inf", "NULL", "End", "BEGIN_GROUP", "a+b", "a.b",
           "16#FF#", "2#2#", "", "a b", "caf\xe9", "x" * 40, "-", "+.5", "2001-01-01",
           "0.10", "1e5", "'q'", '"q"']


class _Q:
    def __init__(self, value, units):
        self.value, self.units = value, units


def _quiet(f):
    try:
        with common.cpu_limit(20):
            return f()
    except common.CaseTimeout:
        return None
    except Exception:
        return None


def hostile_history(pvl, i):
    """Run the history in this process (only for odd *i*).  Returns a short
    description for the evidence, or None when nothing was done."""
    if i % 2 == 0:
        return None
    P, G, D, E = pvl.parser, pvl.grammar, pvl.decoder, pvl.encoder
    col = pvl.collections
    variant = (i // 2) % 4

    class M2(col.PVLModule):
        pass

    class G2(col.PVLGroup):
        pass

    class O2(col.PVLObject):
        pass

    def parsers(kind):
        dk = {}
        pk = {}
        if kind == "decimal":
            dk = {"real_cls": decimal.Decimal, "quantity_cls": _Q}
        elif kind == "fraction":
            dk = {"real_cls": fractions.Fraction}
        elif kind == "classes":
            pk = {"module_class": M2, "group_class": G2, "object_class": O2}
        isis = G.ISISGrammar()
        shared = G.PVLGrammar()
        return {
            "PVL": lambda: P.PVLParser(grammar=G.PVLGrammar(),
                                       decoder=D.PVLDecoder(**dk), **pk),
            "ODL": lambda: P.ODLParser(grammar=G.ODLGrammar(),
                                       decoder=D.ODLDecoder(**dk), **pk),
            "PDS3": lambda: P.ODLParser(grammar=G.PDSGrammar(),
                                        decoder=D.PDSLabelDecoder(), **pk),
            "ISIS": lambda: P.OmniParser(grammar=isis,
                                         decoder=D.OmniDecoder(grammar=isis, **dk), **pk),
            "default": lambda: P.OmniParser(decoder=D.OmniDecoder(**dk), **pk),
            "mixed": lambda: P.OmniParser(grammar=G.OmniGrammar(),
                                          decoder=D.PVLDecoder(**dk), **pk),
            "shared": lambda: P.PVLParser(grammar=shared,
                                          decoder=D.PVLDecoder(grammar=shared, **dk), **pk),
        }

    order = common.rotated(["PVL", "ODL", "PDS3", "ISIS", "default", "mixed", "shared"],
                           i + variant)
    kinds = common.rotated(["plain", "decimal", "classes", "fraction"], variant)
    n = 0
    for kind in kinds:
        mk = parsers(kind)
        for name in order:
            reused = _quiet(mk[name])
            for t in TEXTS:
                if kind == "fraction" and "1E1000000" in t:
                    continue   # Fraction would compute 10**(10**18)
                _quiet(lambda: pvl.loads(t, parser=mk[name]()))
                if reused is not None:
                    _quiet(lambda: reused.parse(t))
                n += 2
    # the loaders' own keyword arguments and entry points
    for t in TEXTS[:6]:
        for kw in ({}, {"grammar": G.PVLGrammar()}, {"decoder": D.ODLDecoder()},
                   {"decoder": D.OmniDecoder(real_cls=decimal.Decimal)},
                   {"grammar": G.ISISGrammar(), "decoder": D.PVLDecoder()},
                   {"module_class": M2, "group_class": G2, "object_class": O2}):
            _quiet(lambda: pvl.loads(t, **kw))
            _quiet(lambda: pvl.loads(t.encode() + b"\nEND\n\xff\xfe\x00", **kw))
            _quiet(lambda: pvl.load(io.StringIO(t), **kw))
            _quiet(lambda: pvl.load(io.BytesIO(t.encode() + b"\xc3"), **kw))
            n += 4
    # decoders and token predicates, every dialect, on borderline strings
    decs = {"PVL": lambda: D.PVLDecoder(), "ODL": lambda: D.ODLDecoder(),
            "PDS3": lambda: D.PDSLabelDecoder(), "Omni": lambda: D.OmniDecoder(),
            "PVL/ODLGrammar": lambda: D.PVLDecoder(grammar=G.ODLGrammar())}
    grams = {"PVL": G.PVLGrammar, "ODL": G.ODLGrammar, "PDS3": G.PDSGrammar,
             "Omni": G.OmniGrammar, "PVL/ODLGrammar": G.ODLGrammar}
    for name in common.rotated(list(decs), i + variant):
        d = _quiet(decs[name])
        g = grams[name]()
        for s in STRINGS:
            for fn in ("decode_simple_value", "decode_datetime", "decode_decimal",
                       "decode_non_decimal", "decode_unquoted_string",
                       "decode_quoted_string"):
                _quiet(lambda: getattr(d, fn)(s))
            tok = _quiet(lambda: pvl.token.Token(s, grammar=g, decoder=d))
            for p in ("is_datetime", "is_numeric", "is_unquoted_string",
                      "is_parameter_name", "is_quoted_string", "is_simple_value"):
                _quiet(lambda: getattr(tok, p)())
            n += 1
    # encoders: accepted modules, refusals in the middle of nested values,
    # options through pvl.dumps, quantity classes registered on single objects
    Q = col.Quantity
    tz5 = dt.timezone(dt.timedelta(hours=5, minutes=30))
    mods = [
        col.PVLModule([("a", 1), ("b", 2.0), ("c", -0.0), ("s", "two words"),
                       ("t", "word " * 30), ("q", Q(3, "m / s"))]),
        col.PVLModule([("g", col.PVLGroup([("x", [1, [2, 3]]), ("y", {1, 2})])),
                       ("o", col.PVLObject([("k", None), ("k", True)]))]),
        col.PVLModule([("g", col.PVLGroup([("a", 1)])), ("g", 5),
                       ("h", col.PVLGroup([("b", 2)]))]),
        col.PVLModule([("a", [[[1, 2]]]), ("b", [[1, 2]])]),
        col.PVLModule([("a", [])]),
        col.PVLModule([("s", "caf\xe9 \xb5m"), ("u", Q(1, "\xb5m"))]),
        col.PVLModule([("s", "a\x07b")]),
        col.PVLModule([("s", "both \" and '")]),
        col.PVLModule([("q", Q("text", "m")), ("r", Q([1, 2], "m"))]),
        col.PVLModule([("t", dt.time(12, 0, 0, 123456)), ("u", dt.time(1, 2, tzinfo=tz5)),
                       ("d", dt.datetime(999, 1, 2, 3, 4, 5, 5000)),
                       ("e", dt.date(2001, 1, 1))]),
        col.PVLModule([("a_parameter_name_longer_than_thirty_chars", 1), ("a.b", 2)]),
        col.PVLModule([("s", s) for s in STRINGS[:14]]),
        col.PVLModule([("x", decimal.Decimal("2.50")), ("y", 1 + 2j)]),
        {"a": 1, "g": col.PVLGroup([("x", 1)]), "h": {"y": 2}},
    ]
    encs = {"PVL": E.PVLEncoder, "ODL": E.ODLEncoder, "PDS3": E.PDSLabelEncoder,
            "ISIS": E.ISISEncoder}
    for name in common.rotated(list(encs), i + variant):
        for cfg in ({}, {"width": 30, "indent": 4, "aggregation_end": False},
                    {"width": 20, "indent": 0}):
            reused = _quiet(lambda: encs[name](**cfg))
            for m in mods:
                _quiet(lambda: encs[name](**cfg).encode(_copy(col, m)))
                if reused is not None:
                    _quiet(lambda: reused.encode(_copy(col, m)))
                    _quiet(lambda: pvl.dumps(_copy(col, m), encoder=reused, indent=3,
                                             grammar=G.PVLGrammar(),
                                             decoder=D.PVLDecoder()))
                n += 3
        e2 = _quiet(lambda: encs[name]())
        _quiet(lambda: e2.add_quantity_cls(_Q, "value", "units"))
        _quiet(lambda: e2.encode(col.PVLModule([("q", _Q(1, "m"))])))
    for m in mods[:6]:
        for kw in ({}, {"indent": 0, "width": 25}, {"tab_replace": 0},
                   {"symbol_single_quote": False, "time_trailing_z": False},
                   {"convert_group_to_object": False}):
            _quiet(lambda: pvl.dumps(_copy(col, m), **kw))
            _quiet(lambda: pvl.dump(_copy(col, m), io.StringIO(), **kw))
            _quiet(lambda: pvl.dump(_copy(col, m), io.BytesIO(), **kw))
    # the multidict-based containers and loaders
    new = _quiet(lambda: __import__("pvl.new", fromlist=["x"]))
    if new is not None:
        for t in TEXTS[:5]:
            for kw in ({}, {"decoder": D.OmniDecoder()},
                       {"decoder": D.OmniDecoder(real_cls=decimal.Decimal)},
                       {"grammar": G.PVLGrammar(), "decoder": D.OmniDecoder()}):
                m = _quiet(lambda: new.loads(t, **kw))
                if m is not None:
                    _quiet(lambda: new.dumps(m))
    # containers: copies, views and indexes that are used and then left behind
    import copy
    c = col.PVLModule([("a", 1), ("b", 2), ("a", 3)])
    for f in (lambda: c.copy(), lambda: copy.copy(c), lambda: copy.deepcopy(c),
              lambda: col.PVLGroup(c), lambda: c.key_index("a", 1),
              lambda: c.insert_after("a", ("z", 0)), lambda: list(c.items()),
              lambda: c.pop(), lambda: c.popitem(), lambda: c.setdefault("q", 1)):
        _quiet(f)
    return f"history variant {variant}: {n} calls, dialect order {order[:3]}..."


def _copy(col, m):
    """A structural copy: the encoders may convert groups in place."""
    if isinstance(m, dict) and hasattr(m, "append"):
        out = type(m)()
        for k, v in list(m):
            out.append(k, _copy(col, v))
        return out
    if type(m) is dict:
        return {k: _copy(col, v) for k, v in m.items()}
    if isinstance(m, list):
        return [_copy(col, v) for v in m]
    return m
