"""List-of-pairs reference model of the ordered multi-dict (C10, C11).

The model is written directly from the documented semantics (docstrings of
pvl.collections, the MutableMapping/MutableSequence ABC contracts, and the
property text).  It never looks at the implementation.

An *operation instance* is a tuple (name, args...) ; `apply_model` and
`apply_real` execute it on the model / on the real container and return an
outcome ("ok", value) or ("exc", ExceptionTypeName).
"""
import warnings
from collections import abc

_MISSING = object()


class Model:
    def __init__(self, pairs=()):
        self.items = [tuple(p) for p in pairs]

    # ---- readers --------------------------------------------------------
    def keys(self):
        return [k for k, _ in self.items]

    def values(self):
        return [v for _, v in self.items]

    def getall(self, k):
        r = [v for kk, v in self.items if kk == k]
        if not r:
            raise KeyError(k)
        return r

    def first(self, k):
        for kk, v in self.items:
            if kk == k:
                return v
        raise KeyError(k)

    def has(self, k):
        return any(kk == k for kk, _ in self.items)

    def key_index(self, k, instance=0):
        if not self.has(k):
            raise KeyError(k)
        idxs = [i for i, (kk, _) in enumerate(self.items) if kk == k]
        return idxs[instance]  # IndexError as list indexing would

    # ---- mutators -------------------------------------------------------
    def append(self, k, v):
        self.items.append((k, v))

    def extend_pairs(self, pairs):
        for k, v in pairs:
            self.items.append((k, v))

    def insert(self, index, pairs):
        # "insert places the pairs at the index": list.insert position rules,
        # the pairs stay together and in order.
        if not isinstance(index, int):
            raise TypeError
        n = len(self.items)
        if index < 0:
            index = max(0, n + index)
        index = min(index, n)
        self.items[index:index] = [tuple(p) for p in pairs]

    def setitem(self, k, v):
        if not self.has(k):
            self.items.append((k, v))
            return
        out, done = [], False
        for kk, vv in self.items:
            if kk == k:
                if not done:
                    out.append((k, v))
                    done = True
            else:
                out.append((kk, vv))
        self.items = out

    def delitem(self, k):
        if not self.has(k):
            raise KeyError(k)
        self.items = [(kk, v) for kk, v in self.items if kk != k]

    def pop_last(self):
        if not self.items:
            raise KeyError("empty")
        return self.items.pop()

    def pop_key(self, k, default=_MISSING):
        if not self.has(k):
            if default is _MISSING:
                raise KeyError(k)
            return default
        v = self.first(k)
        self.delitem(k)
        return v

    def setdefault(self, k, default=None):
        if self.has(k):
            return self.first(k)
        self.items.append((k, default))
        return default

    def clear(self):
        self.items = []


def pairs_of_insert_arg(arg):
    """What pairs does insert()'s documented argument convention denote?"""
    if isinstance(arg, abc.Mapping):
        return list(arg.items())
    if len(arg) == 2 and (
        isinstance(arg[0], str) or not isinstance(arg[0], abc.Sequence)
    ):
        return [tuple(arg)]
    out = []
    for p in arg:
        # every element must be a pair; otherwise the whole insert is refused
        if isinstance(p, str) or not isinstance(p, abc.Sequence) or len(p) != 2:
            raise TypeError("not a pair")
        out.append(tuple(p))
    return out


def apply_model(m: Model, op):
    name = op[0]
    try:
        if name == "append":
            m.append(op[1], op[2])
            return ("ok", None)
        if name == "extend":  # op[1] = list of pairs | dict ; op[2] = kwargs
            src = op[1]
            pairs = []
            if src is not None:
                pairs += list(src.items()) if isinstance(src, dict) else list(src)
            pairs += list(op[2].items())
            m.extend_pairs(pairs)
            return ("ok", None)
        if name == "insert3":
            m.insert(op[1], [(op[2], op[3])])
            return ("ok", None)
        if name == "insert2":
            m.insert(op[1], pairs_of_insert_arg(op[2]))
            return ("ok", None)
        if name == "insert_iter":     # replay only: as the real container did
            return ("ok", None)
        if name in ("insert_before", "insert_after"):
            idx = m.key_index(op[1], op[3])
            if name == "insert_after":
                idx += 1
            m.insert(idx, pairs_of_insert_arg(op[2]))
            return ("ok", None)
        if name == "setitem":
            m.setitem(op[1], op[2])
            return ("ok", None)
        if name == "delitem":
            m.delitem(op[1])
            return ("ok", None)
        if name in ("pop0", "popitem"):
            return ("ok", m.pop_last())
        if name in ("pop1", "popall1"):
            return ("ok", m.pop_key(op[1]))
        if name in ("pop2", "popall2"):
            return ("ok", m.pop_key(op[1], op[2]))
        if name == "setdefault":
            return ("ok", m.setdefault(op[1], op[2]))
        if name == "setdefault1":
            return ("ok", m.setdefault(op[1]))
        if name == "update":
            src = op[1]
            pairs = []
            if src is not None:
                pairs += list(src.items()) if isinstance(src, dict) else list(src)
            pairs += list(op[2].items())
            for k, v in pairs:
                m.setitem(k, v)
            return ("ok", None)
        if name == "discard":
            if m.has(op[1]):
                m.delitem(op[1])
            return ("ok", None)
        if name == "clear":
            m.clear()
            return ("ok", None)
    except (KeyError, IndexError, TypeError) as e:
        return ("exc", type(e).__name__)
    raise AssertionError(f"unknown op {op}")


def apply_real(c, op):
    if op[0] == "insert_iter":
        try:
            c.insert(op[1], iter(list(op[2])))
            return ("ok", None)
        except (KeyError, IndexError, TypeError) as e:
            return ("exc", type(e).__name__)
    return _apply_real(c, op)


def _apply_real(c, op):
    name = op[0]
    try:
        with warnings.catch_warnings():
            warnings.simplefilter("ignore")
            if name == "append":
                r = c.append(op[1], op[2])
            elif name == "extend":
                r = (c.extend(**op[2]) if op[1] is None
                     else c.extend(op[1], **op[2]))
            elif name == "insert3":
                r = c.insert(op[1], op[2], op[3])
            elif name == "insert2":
                r = c.insert(op[1], op[2])
            elif name == "insert_before":
                r = c.insert_before(op[1], op[2], op[3])
            elif name == "insert_after":
                r = c.insert_after(op[1], op[2], op[3])
            elif name == "setitem":
                c[op[1]] = op[2]
                r = None
            elif name == "delitem":
                del c[op[1]]
                r = None
            elif name == "pop0":
                r = c.pop()
            elif name == "popitem":
                r = c.popitem()
            elif name == "pop1":
                r = c.pop(op[1])
            elif name == "pop2":
                r = c.pop(op[1], op[2])
            elif name == "popall1":
                r = c.popall(op[1])
            elif name == "popall2":
                r = c.popall(op[1], op[2])
            elif name == "setdefault":
                r = c.setdefault(op[1], op[2])
            elif name == "setdefault1":
                r = c.setdefault(op[1])
            elif name == "update":
                r = (c.update(**op[2]) if op[1] is None
                     else c.update(op[1], **op[2]))
            elif name == "discard":
                r = c.discard(op[1])
            elif name == "clear":
                r = c.clear()
            else:
                raise AssertionError(f"unknown op {op}")
        return ("ok", r)
    except (KeyError, IndexError, TypeError) as e:
        return ("exc", type(e).__name__)


# --------------------------------------------------------------------------
# raw two-representation invariant (also used as the icontract invariant)
# --------------------------------------------------------------------------
def storage_agrees(c):
    """dict storage == item list, read without any overridden accessor."""
    items = list(c)  # the sequence view *is* iteration
    want = {}
    for k, v in items:
        want.setdefault(k, []).append(v)
    try:
        got = {k: dict.__getitem__(c, k) for k in dict.keys(c)}
    except Exception:
        return False
    if not got and items:
        # the implementation does not keep a second representation in the
        # dict storage at all: the public accessors (compared separately)
        # are the whole truth
        return len(c) == len(items)
    if set(got) != set(want):
        return False
    for k in want:
        g = got[k]
        if not isinstance(g, list) or len(g) != len(want[k]):
            return False
        for a, b in zip(g, want[k]):
            if a is not b and a != b:
                return False
    return len(c) == len(items)


# --------------------------------------------------------------------------
# full comparison of every public accessor against the model
# --------------------------------------------------------------------------
def _eq(a, b):
    return type(a) is type(b) and a == b if not isinstance(a, tuple) else (
        isinstance(b, tuple) and len(a) == len(b)
        and all(_eq(x, y) for x, y in zip(a, b))
    )


def _call(f):
    try:
        with warnings.catch_warnings():
            warnings.simplefilter("ignore")
            return ("ok", f())
    except (KeyError, IndexError, ValueError, TypeError) as e:
        return ("exc", type(e).__name__)


def compare_views(c, m: Model, probe_keys, probe_values, counter=None):
    """Return a list of (accessor, expected, actual) mismatches."""
    bad = []
    n = len(m.items)

    def chk(name, exp, act):
        if counter is not None:
            fam = name.split("(")[0].split("[")[0]
            if " in " in fam:
                fam = "x in " + fam.split(" in ")[1]
            counter["acc:" + (fam or "m[...]")] += 1
        if exp != act:
            bad.append((name, repr(exp)[:200], repr(act)[:200]))

    chk("list(m)", ("ok", list(m.items)), _call(lambda: list(c)))
    chk("len(m)", ("ok", n), _call(lambda: len(c)))
    chk("bool(m)", ("ok", n > 0), _call(lambda: bool(c)))
    for i in list(range(-n - 1, n + 1)):
        exp = ("ok", m.items[i]) if -n <= i < n else ("exc", "IndexError")
        chk(f"m[{i}]", exp, _call(lambda: c[i]))
    for sl in (slice(None), slice(1, None), slice(None, -1), slice(None, None, 2),
               slice(None, None, -1), slice(1, 3)):
        chk(f"m[{sl}]", ("ok", m.items[sl]), _call(lambda: c[sl]))
    ks, vs = m.keys(), m.values()
    kv, vv, iv = c.keys(), c.values(), c.items()
    chk("keys()", ("ok", ks), _call(lambda: list(kv)))
    chk("values()", ("ok", vs), _call(lambda: list(vv)))
    chk("items()", ("ok", list(m.items)), _call(lambda: list(iv)))
    chk("len(keys())", ("ok", n), _call(lambda: len(kv)))
    chk("len(values())", ("ok", n), _call(lambda: len(vv)))
    chk("len(items())", ("ok", n), _call(lambda: len(iv)))
    for i in (0, n - 1, -1, n):
        ok = -n <= i < n
        chk(f"keys()[{i}]", ("ok", ks[i]) if ok else ("exc", "IndexError"),
            _call(lambda: kv[i]))
        chk(f"values()[{i}]", ("ok", vs[i]) if ok else ("exc", "IndexError"),
            _call(lambda: vv[i]))
        chk(f"items()[{i}]",
            ("ok", m.items[i]) if ok else ("exc", "IndexError"),
            _call(lambda: iv[i]))
    for k in probe_keys:
        has = m.has(k)
        chk(f"{k!r} in m", ("ok", has), _call(lambda: k in c))
        chk(f"{k!r} in keys()", ("ok", has), _call(lambda: k in kv))
        chk(f"m[{k!r}]", ("ok", m.first(k)) if has else ("exc", "KeyError"),
            _call(lambda: c[k]))
        chk(f"get({k!r})", ("ok", m.first(k) if has else None),
            _call(lambda: c.get(k)))
        chk(f"get({k!r},'d')", ("ok", m.first(k) if has else "d"),
            _call(lambda: c.get(k, "d")))
        chk(f"getall({k!r})",
            ("ok", m.getall(k)) if has else ("exc", "KeyError"),
            _call(lambda: c.getall(k)))
        chk(f"keys().index({k!r})",
            ("ok", ks.index(k)) if has else ("exc", "ValueError"),
            _call(lambda: kv.index(k)))
        cnt = sum(1 for kk in ks if kk == k)
        for inst in range(-cnt - 1, cnt + 1):
            if not has:
                exp = ("exc", "KeyError")
            else:
                try:
                    exp = ("ok", m.key_index(k, inst))
                except IndexError:
                    exp = ("exc", "IndexError")
            chk(f"key_index({k!r},{inst})", exp,
                _call(lambda: c.key_index(k, inst)))
        if has:
            chk(f"key_index({k!r})", ("ok", m.key_index(k)),
                _call(lambda: c.key_index(k)))
        for v in probe_values:
            chk(f"({k!r},{v!r}) in items()",
                ("ok", (k, v) in m.items), _call(lambda: (k, v) in iv))
            chk(f"items().index(({k!r},{v!r}))",
                ("ok", m.items.index((k, v))) if (k, v) in m.items
                else ("exc", "ValueError"),
                _call(lambda: iv.index((k, v))))
    for v in probe_values:
        chk(f"{v!r} in values()", ("ok", v in vs), _call(lambda: v in vv))
        chk(f"values().index({v!r})",
            ("ok", vs.index(v)) if v in vs else ("exc", "ValueError"),
            _call(lambda: vv.index(v)))
    chk("storage_agrees", True, storage_agrees(c))
    return bad
