"""Harness-side pytest plugin (enabled with PVL_VERIF=1): runs the repository's
own tests with the two-representation invariant attached in record mode."""
import json
import os

from vlib import contracts

_CUR = {"test": None, "n": 0}


def pytest_configure(config):
    if os.environ.get("PVL_VERIF") != "1":
        return
    contracts.install("record")


def pytest_runtest_setup(item):
    _CUR["test"] = item.nodeid
    _CUR["n"] += 1
    _CUR["mark"] = len(contracts.STATE["breaks"])


def pytest_runtest_teardown(item):
    for b in contracts.STATE["breaks"][_CUR.get("mark", 0):]:
        b.setdefault("test", item.nodeid)


def pytest_sessionfinish(session, exitstatus):
    out = os.environ.get("PVL_VERIF_CONTRACT_OUT")
    if not out or os.environ.get("PVL_VERIF") != "1":
        return
    with open(out, "w") as f:
        json.dump({"evaluations": contracts.STATE["evaluations"],
                   "breaks": contracts.STATE["breaks"],
                   "tests": _CUR["n"]}, f)
