"""Independent reader of encoder output (DESIGN 3.8).  Knows only quotes,
brackets, <...>, line ends and '='.  Does not import pvl."""
import re

BEGIN_RE = re.compile(
    r"^( *)(BEGIN_GROUP|BEGIN_OBJECT|GROUP|OBJECT|Group|Object) = (\S+?)(;?)$")
END_RE = re.compile(
    r"^( *)(END_GROUP|END_OBJECT|End_Group|End_Object)(?: = (\S+?))?(;?)$")
FINAL_RE = re.compile(r"^(END|End)(;?)$")
ASSIGN_RE = re.compile(r"^( *)([^\s=]+)( *)= ?(.*)$", re.S)
KW_ANYCASE = re.compile(
    r"^ *(begin_group|begin_object|group|object|end_group|end_object|end)\b",
    re.I)


class Stmt:
    __slots__ = ("kind", "indent", "key", "eq_col", "lines", "lineno",
                 "keyword", "name", "delim", "value", "pad")

    def __init__(self, **kw):
        for k in self.__slots__:
            setattr(self, k, kw.get(k))


class State:
    __slots__ = ("quote", "units", "depth")

    def __init__(self):
        self.quote, self.units, self.depth = None, False, 0

    def neutral(self):
        return self.quote is None and not self.units and self.depth == 0

    def feed(self, line):
        for ch in line:
            if self.quote:
                if ch == self.quote:
                    self.quote = None
            elif self.units:
                if ch == ">":
                    self.units = False
            elif ch in "\"'":
                self.quote = ch
            elif ch == "<":
                self.units = True
            elif ch in "({":
                self.depth += 1
            elif ch in ")}":
                self.depth -= 1


def scan(text, newline):
    """Returns (statements, problems, tail).  `tail` is what follows the last
    newline (or the whole last line)."""
    problems = []
    phys = text.split(newline)
    st = State()
    stmts = []
    cur = None
    for no, line in enumerate(phys, 1):
        starts_neutral = st.neutral()
        if starts_neutral:
            # stray line-end characters outside quoted text
            pass
        new = None
        if starts_neutral and line.strip(" ") != "":
            m = FINAL_RE.match(line)
            if m:
                new = Stmt(kind="final", indent=0, lines=[line], lineno=no,
                           keyword=m.group(1), delim=m.group(2))
            if new is None:
                m = END_RE.match(line)
                if m:
                    new = Stmt(kind="end", indent=len(m.group(1)), lines=[line],
                               lineno=no, keyword=m.group(2), name=m.group(3),
                               delim=m.group(4))
            if new is None:
                m = BEGIN_RE.match(line)
                if m:
                    new = Stmt(kind="begin", indent=len(m.group(1)), lines=[line],
                               lineno=no, keyword=m.group(2), name=m.group(3),
                               delim=m.group(4))
            if new is None:
                m = ASSIGN_RE.match(line)
                if m and not line.lstrip(" ").startswith(("<", '"', "'", "(", "{")):
                    new = Stmt(kind="assign", indent=len(m.group(1)),
                               key=m.group(2), pad=len(m.group(3)),
                               eq_col=len(m.group(1)) + len(m.group(2))
                               + len(m.group(3)),
                               lines=[line], lineno=no)
        if new is not None:
            cur = new
            stmts.append(cur)
        elif line.strip(" ") == "" and starts_neutral:
            cur = None if cur is None or True else cur  # blank line
        else:
            if cur is None:
                problems.append(("orphan-line", no, line[:80]))
            else:
                cur.lines.append(line)
        # feed the state machine, checking stray CR/LF outside quotes
        flagged = False
        for ch in line:
            if st.quote is None and ch in "\r\n" and not flagged:
                problems.append(("stray-line-end-char-outside-quotes", no,
                                 repr(line[:60])))
                flagged = True
            st.feed(ch)
    if not st.neutral():
        problems.append(("unbalanced-at-end", len(phys),
                         f"quote={st.quote} units={st.units} depth={st.depth}"))
    return stmts, problems, phys[-1] if phys else ""


def value_text(stmt):
    """The value part of an assignment as one string (continuations joined)."""
    first = stmt.lines[0]
    m = ASSIGN_RE.match(first)
    head = m.group(4) if m else ""
    return [head] + stmt.lines[1:]


NUM_RE = re.compile(
    r"^[+-]?(\d+#[+-]?[0-9A-Fa-f]+#|(\d+\.?\d*|\.\d+)([eE][+-]?\d+)?)$")


def elements(value_lines):
    """Yield ('single'|'double'|'units'|'bare', text, preceding_bare_token)
    for the lexical elements of a value (list of physical lines)."""
    s = "\n".join(value_lines)
    i, n = 0, len(s)
    prev = None
    while i < n:
        ch = s[i]
        if ch in "\"'":
            j = s.find(ch, i + 1)
            j = n - 1 if j < 0 else j
            yield ("double" if ch == '"' else "single", s[i + 1:j], prev)
            prev = s[i:j + 1]
            i = j + 1
        elif ch == "<":
            j = s.find(">", i + 1)
            j = n - 1 if j < 0 else j
            yield ("units", s[i + 1:j], prev)
            prev = s[i:j + 1]
            i = j + 1
        elif ch in " \n\r\t,(){};":
            i += 1
        else:
            j = i
            while j < n and s[j] not in " \n\r\t,(){};<\"'":
                j += 1
            prev = s[i:j]
            yield ("bare", prev, None)
            i = j


def brackets(value_lines):
    """Bracket structure of a value outside quotes and units: yields
    ('open', char, depth_after, enclosing_brackets) and
    ('close', char, depth_after, number_of_members) events and
    ('member', kind, text, stack) for each lexical member, where stack is the
    string of currently open brackets."""
    s = "\n".join(value_lines)
    i, n = 0, len(s)
    stack = []
    counts = []
    while i < n:
        ch = s[i]
        if ch in "\"'":
            j = s.find(ch, i + 1)
            j = n - 1 if j < 0 else j
            if counts:
                counts[-1] += 1
            yield ("member", "double" if ch == '"' else "single", s[i + 1:j],
                   "".join(stack))
            i = j + 1
        elif ch == "<":
            j = s.find(">", i + 1)
            j = n - 1 if j < 0 else j
            yield ("member", "units", s[i + 1:j], "".join(stack))
            i = j + 1
        elif ch in "({":
            if counts:
                counts[-1] += 1
            yield ("open", ch, len(stack) + 1, "".join(stack))
            stack.append(ch)
            counts.append(0)
            i += 1
        elif ch in ")}":
            if stack:
                stack.pop()
                yield ("close", ch, len(stack), counts.pop())
            i += 1
        elif ch in " \n\r\t,;":
            i += 1
        else:
            j = i
            while j < n and s[j] not in " \n\r\t,(){};<\"'":
                j += 1
            if counts:
                counts[-1] += 1
            yield ("member", "bare", s[i:j], "".join(stack))
            i = j
