"""Dump -> load round-trip monitor shared by C01 (strict reader of the same
dialect) and C02 (default permissive loader)."""
import datetime as dt
import re

from . import common
from .gen_values import (KEYWORDS, make_encoder, strict_parser, in_charset,
                         gen_module, gen_config)
from .normalise import clone, compare, rules_for, is_container

_TIME_RE = re.compile(r"\d{1,4}-\d{1,3}(-\d{1,2})?(T.*)?\Z|\d{1,2}:\d{2}.*\Z")
_BASED_RE = re.compile(r"[+-]?\d+#[+-]?[0-9A-Za-z]+#\Z")


def describe_str(s, dialect):
    """First matching hazard, a pure function of the string."""
    if '"' in s and "'" in s:
        return "str:both-quote-kinds"
    if not in_charset(dialect, s):
        return "str:outside-charset"
    if s == "":
        return "str:empty"
    if re.search(r"-[\n\r\f\v]", s):
        return "str:dash-linebreak"
    if any(c in s for c in "\n\r\f\v"):
        return "str:line-breaks"
    if s.casefold() in KEYWORDS:
        return "str:keyword-like"
    try:
        float(s)
        return "str:number-like"
    except ValueError:
        pass
    if s.casefold().lstrip("+-") in ("inf", "nan", "infinity"):
        return "str:number-like"
    if _TIME_RE.match(s):
        if re.search(r"[0-9Z][+-][0-9]{1,2}(:?[0-9]{2})?\Z", s):
            return "str:time-with-zone-offset-like"
        return "str:time-like"
    if _BASED_RE.match(s):
        return "str:based-like"
    if s.endswith("-"):
        return "str:ends-with-dash"
    if "/*" in s or "*/" in s:
        return "str:comment-delimiters"
    if "#" in s:
        return "str:hash"
    if any(c in s for c in "&<>{},[]=!()%+;~|"):
        return "str:reserved-char"
    if '"' in s or "'" in s:
        return "str:one-quote-kind"
    if "\t" in s:
        return "str:tab"
    if s != s.strip() or "  " in s:
        return "str:outer-or-multi-space"
    if " " in s:
        return "str:interior-space"
    if any(ord(c) > 127 for c in s):
        return "str:latin1"
    if any(ord(c) < 32 or ord(c) == 127 for c in s):
        return "str:ascii-control"
    if re.fullmatch(r"[A-Za-z][A-Za-z0-9_]*", s):
        return "str:identifier"
    return "str:other"


def describe(v, dialect):
    if v is None:
        return "none"
    if isinstance(v, bool):
        return "bool"
    if isinstance(v, int):
        return "int"
    if isinstance(v, float):
        r = repr(v)
        if v != v or v in (float("inf"), float("-inf")):
            return "float:non-finite"
        return "float:exp" if "e" in r else ("float:neg-zero" if r == "-0.0"
                                             else "float")
    if isinstance(v, str):
        return describe_str(v, dialect)
    if isinstance(v, dt.datetime) or isinstance(v, dt.time):
        k = "datetime" if isinstance(v, dt.datetime) else "time"
        if v.tzinfo is None:
            tz = "naive"
        else:
            off = v.utcoffset().total_seconds()
            tz = ("utc" if off == 0 else
                  ("minus" if off < 0 else "plus")
                  + ("-whole" if off % 3600 == 0 else "-half"))
        us = v.microsecond
        usc = "us0" if us == 0 else (
            "sub-ms" if us % 1000 else ("ms-lt-100" if us < 100000 else "ms"))
        yc = ""
        if isinstance(v, dt.datetime) and v.year < 1000:
            yc = ":year-lt-1000"
        return f"{k}:{tz}:{usc}{yc}"
    if isinstance(v, dt.date):
        return "date:year-lt-1000" if v.year < 1000 else "date"
    if type(v).__name__ == "Quantity":
        u = str(v.units)
        uc = ("units-outer-space" if u != u.strip() else
              "units-delims" if ("<" in u or ">" in u) else
              "units-empty" if u == "" else
              "units-inner-space" if " " in u else "units")
        return f"quantity[{describe(v.value, dialect)}]:{uc}"
    if isinstance(v, list):
        if not v:
            return "seq:empty"
        return "seq[" + "+".join(sorted({describe(x, dialect) for x in v})) + "]"
    if isinstance(v, (set, frozenset)):
        if not v:
            return "set:empty"
        return "set[" + "+".join(sorted({describe(x, dialect) for x in v})) + "]"
    return "other:" + type(v).__name__


def children(v):
    """Smaller values to try when shrinking a failing value."""
    out = []
    if type(v).__name__ == "Quantity":
        out.append(v.value)
        if not isinstance(v.value, (int,)) or isinstance(v.value, bool):
            out.append(type(v)(1, v.units))
    elif isinstance(v, list):
        for x in v:
            out.append(x)
        if len(v) > 1:
            for x in v:
                out.append([x])
            out.append(v[: len(v) // 2])
            out.append(v[len(v) // 2:])
    elif isinstance(v, (set, frozenset)):
        for x in v:
            out.append(x)
        if len(v) > 1:
            for x in v:
                out.append(type(v)([x]))
    return out


class Outcome:
    __slots__ = ("kind", "detail", "text")

    def __init__(self, kind, detail="", text=None):
        self.kind, self.detail, self.text = kind, detail, text

    @property
    def bad(self):
        return self.kind not in ("ok", "refused")


def roundtrip(pvl, dialect, cfg, module, reader, budget=None):
    """One dump+load.  Returns Outcome(kind in ok / refused / encode-raised /
    load-failed / load-raised-other / value-changed / repair-fired)."""
    LexerError = pvl.exceptions.LexerError
    ParseError = pvl.exceptions.ParseError
    orig = clone(module)
    try:
        enc = make_encoder(pvl, dialect, cfg)
        text = enc.encode(module)
    except (ValueError, TypeError) as e:
        return Outcome("refused", f"{type(e).__name__}: {e}"[:200])
    except common.CaseTimeout:
        raise
    except Exception as e:
        return Outcome("encode-raised", f"{type(e).__name__}: {e}"[:200])
    if not isinstance(text, str):
        return Outcome("encode-raised", f"returned {type(text).__name__}")
    try:
        if reader == "default-noargs":
            loaded = pvl.loads(text)
        else:
            loaded = pvl.loads(text, parser=strict_parser(pvl, reader))
    except (LexerError, ParseError) as e:
        return Outcome("load-failed", f"{type(e).__name__}: {e}"[:300], text)
    except common.CaseTimeout:
        raise
    except Exception as e:
        return Outcome("load-raised-other", f"{type(e).__name__}: {e}"[:300], text)
    rd = "default" if reader == "default-noargs" else reader
    diff = compare(orig, loaded, rules_for(dialect, rd))
    if diff:
        return Outcome("value-changed", f"{diff[0]}: {diff[1]}"[:400], text)
    errs = getattr(loaded, "errors", None)
    if errs:
        return Outcome("repair-fired", f"errors={errs}", text)
    return Outcome("ok", "", text)


def wrap_levels(col, name, value, level):
    m = col.PVLModule()
    c = m
    for i in range(level):
        sub = col.PVLObject()
        c.append(f"LVL{i}", sub)
        c = sub
    c.append(name, value)
    return m


def isolate(pvl, dialect, cfg, gm, reader, first):
    """Find the smallest single statement that still fails; return a list of
    (kind, features, witness, message)."""
    col = pvl.collections
    found = []
    big = dict(cfg)
    big["width"] = 100000
    for path, name, leaf, level in gm.leaves:
        o = roundtrip(pvl, dialect, cfg, wrap_levels(col, name, leaf.value, level),
                      reader)
        if not o.bad:
            continue
        # shrink the value
        v = leaf.value
        progress = True
        steps = 0
        while progress and steps < 40:
            progress = False
            for ch in children(v):
                steps += 1
                o2 = roundtrip(pvl, dialect, cfg,
                               wrap_levels(col, name, ch, level), reader)
                if o2.bad and o2.kind == o.kind:
                    v, o, progress = ch, o2, True
                    break
        ob = roundtrip(pvl, dialect, big, wrap_levels(col, name, v, level), reader)
        plain = roundtrip(pvl, dialect, cfg, wrap_levels(col, "K", v, 0), reader)
        feats = {
            "value": describe(v, dialect),
            "wrap_dependent": not ob.bad,
            "name_or_level_dependent": not plain.bad,
        }
        wit = {"dialect": dialect, "reader": reader, "cfg": cfg, "name": name,
               "level": level, "value": repr(v), "text": o.text}
        found.append((o.kind, feats, wit, o.detail))
    if found:
        return found
    # no single leaf fails alone: structural / combination effect
    # try with all leaves replaced by 1
    skel = clone(gm.module)

    def strip(c):
        for i, (k, v) in enumerate(list(c)):
            if is_container(v):
                strip(v)
        items = [(k, v if is_container(v) else 1) for k, v in list(c)]
        c.clear()
        for k, v in items:
            c.append(k, v)

    strip(skel)
    o = roundtrip(pvl, dialect, cfg, skel, reader)
    names = sorted({c for _, c, _ in gm.names})
    # one nameable mechanism: a block name that ends in '-' (cannot be quoted)
    if any(n.endswith("-") for n, _, _ in gm.names):
        ren = clone(gm.module)

        def rename(c):
            items = []
            for k, v in list(c):
                if is_container(v):
                    rename(v)
                    if k.endswith("-"):
                        k = k + "x"
                items.append((k, v))
            c.clear()
            for k, v in items:
                c.append(k, v)

        rename(ren)
        o2 = roundtrip(pvl, dialect, cfg, ren, reader)
        if not o2.bad:
            wit = {"dialect": dialect, "reader": reader, "cfg": cfg,
                   "module": repr(gm.module)[:1500], "text": first.text}
            return [(first.kind.split(":")[0],
                     {"mechanism": "block-name-ends-with-dash",
                      "statement_delimiter": bool(cfg.get("end_delimiter"))},
                     wit, first.detail)]
    feats = {
        "structure_alone_fails": o.bad,
        "duplicate_keys": gm.has_dup,
        "groups": gm.n_groups > 0,
        "objects": gm.n_objects > 0,
        "name_classes": "+".join(names),
    }
    wit = {"dialect": dialect, "reader": reader, "cfg": cfg,
           "module": repr(gm.module)[:1500], "text": first.text}
    return [(first.kind + ":composite", feats, wit, first.detail)]


def run_case(rec, pvl, dialect, reader, seed_key, rng, check):
    """Generate one (module, cfg) case, run it, record."""
    col = pvl.collections
    cfg = gen_config(rng, dialect)
    gm = gen_module(rng, dialect, cfg["width"], col)
    for cls in gm.classes:
        rec.count(f"class[{dialect}][{cls.split(':')[0]}]")
    o = roundtrip(pvl, dialect, cfg, gm.module, reader)
    rec.count(f"outcome[{dialect}][{o.kind}]")
    if gm.has_dup:
        rec.count("modules_with_duplicate_keys")
    if gm.max_depth:
        rec.count("modules_with_nesting")
    if o.text and any(len(line) > 0 and line.startswith(" ") for line in
                      o.text.splitlines()):
        rec.count("texts_with_indented_lines")
    rec.case((dialect, reader, seed_key), True,
             sample={"dialect": dialect, "cfg": cfg, "seed": seed_key,
                     "outcome": o.kind, "text": (o.text or "")[:300]}
             if rec.c["evaluations"] % 701 == 0 else None)
    if o.kind == "encode-raised":
        rec.violation(check, dialect, "encode-raised-not-ValueError-TypeError",
                      {"exc": o.detail.split(":")[0]},
                      {"dialect": dialect, "cfg": cfg, "seed": seed_key,
                       "module": repr(gm.module)[:1200]}, o.detail)
        return
    if not gm.rep:
        rec.count(f"unrepresentable_only_refusal_type_judged[{dialect}]")
        return
    rec.count(f"representable[{dialect}]")
    if not o.bad:
        return
    for kind, feats, wit, msg in isolate(pvl, dialect, cfg, gm, reader, o):
        wit["seed"] = seed_key
        rec.violation(check, dialect, kind, feats, wit, msg)
