"""Helpers shared by the text-side checks (C03 C04 C05 C06 C08 ...)."""
import re

from . import common
from . import gen_text as gt
from .gen_values import strict_parser


def load(pvl, reader, text, parser=None, cpu=30):
    """('ok', module) | ('LexerError'|'ParseError', exc) | (other name, exc) |
    ('timeout', None)."""
    LexerError = pvl.exceptions.LexerError
    ParseError = pvl.exceptions.ParseError
    try:
        with common.cpu_limit(cpu):
            if parser is None:
                parser = strict_parser(pvl, reader)
            return ("ok", pvl.loads(text, parser=parser))
    except LexerError as e:
        return ("LexerError", e)
    except ParseError as e:
        return ("ParseError", e)
    except common.CaseTimeout:
        return ("timeout", None)
    except RecursionError as e:
        return ("RecursionError", e)
    except Exception as e:
        return (type(e).__name__, e)


def sep_class(s):
    if s == "":
        return "empty"
    if "#" in s and re.search(r"(^|\s)#", s):
        return "hash-comment"
    if "/*" in s:
        adj = []
        if s.startswith("/*"):
            adj.append("L")
        if s.endswith("*/"):
            adj.append("R")
        return "block-comment" + ("-adjacent" + "".join(adj) if adj else "")
    kinds = set()
    i = 0
    while i < len(s):
        c = s[i]
        if c in " \t":
            kinds.add("sp")
        elif c == "\r" and s[i + 1:i + 2] == "\n":
            kinds.add("crlf")
            i += 1
        elif c == "\n":
            kinds.add("lf")
        elif c == "\r":
            kinds.add("cr")
        elif c == "\f":
            kinds.add("ff")
        elif c == "\v":
            kinds.add("vt")
        i += 1
    return "ws:" + "+".join(sorted(kinds))


def tok_class(t):
    if t is None:
        return "EDGE"
    if t.kind == gt.VAL:
        return "VAL:" + (t.cls or "").split(":")[0]
    return t.kind


def minimise_layout(tokens, seps, plain, fails):
    """Greedy: turn wild separators back into plain ones while *fails(seps)*
    stays true.  Returns the list of gap indexes that must stay wild."""
    cur = list(seps)
    culprits = []
    for i in range(len(cur)):
        if cur[i] == plain[i]:
            continue
        trial = list(cur)
        trial[i] = plain[i]
        if fails(trial):
            cur = trial
        else:
            culprits.append(i)
    return culprits, cur


def gap_feature(tokens, seps, i):
    prev = tokens[i - 1] if i - 1 >= 0 and i - 1 < len(tokens) and i > 0 else None
    nxt = tokens[i] if i < len(tokens) else None
    return {"prev": tok_class(prev), "sep": sep_class(seps[i]),
            "next": tok_class(nxt)}
