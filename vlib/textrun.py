"""Helpers shared by the text-side checks (C03 C04 C05 C06 C08 ...)."""
import re

from . import common
from . import gen_text as gt
from .gen_values import strict_parser


def load(pvl, reader, text, parser=None, cpu=30):
    """('ok', module) | ('LexerError'|'ParseError', exc) | (other name, exc) |
    ('timeout', None)."""
    LexerError = pvl.exceptions.LexerError
    ParseError = pvl.exceptions.ParseError
    try:
        with common.cpu_limit(cpu):
            if parser is None:
                parser = strict_parser(pvl, reader)
            return ("ok", pvl.loads(text, parser=parser))
    except LexerError as e:
        return ("LexerError", e)
    except ParseError as e:
        return ("ParseError", e)
    except common.CaseTimeout:
        return ("timeout", None)
    except RecursionError as e:
        return ("RecursionError", e)
    except Exception as e:
        return (type(e).__name__, e)


def interfere(pvl, reader, text, rng):
    """A load of the same text through a *differently configured* parser
    (another real-number class and quantity class, container classes of the
    caller, or another dialect), result thrown away.  Anything such a call
    parks outside its own instances (module- or class-level memos keyed too
    coarsely) shows in the judged load that follows.  Returns what was done."""
    import decimal
    import fractions
    P, G, D = pvl.parser, pvl.grammar, pvl.decoder
    how = rng.choice(("decimal", "fraction", "other-dialect", "classes"))
    try:
        with common.cpu_limit(30):
            if how in ("decimal", "fraction"):
                rc = decimal.Decimal if how == "decimal" else fractions.Fraction

                class Q2(tuple):
                    def __new__(cls, value, units):
                        return tuple.__new__(cls, (value, units))
                kw = dict(real_cls=rc, quantity_cls=Q2)
                if reader == "PVL":
                    p = P.PVLParser(grammar=G.PVLGrammar(), decoder=D.PVLDecoder(**kw))
                elif reader == "ODL":
                    p = P.ODLParser(grammar=G.ODLGrammar(), decoder=D.ODLDecoder(**kw))
                elif reader == "PDS3":
                    p = P.ODLParser(grammar=G.PDSGrammar(),
                                    decoder=D.ODLDecoder(grammar=G.PDSGrammar(), **kw))
                elif reader == "ISIS":
                    g = G.ISISGrammar()
                    p = P.OmniParser(grammar=g, decoder=D.OmniDecoder(grammar=g, **kw))
                else:
                    p = P.OmniParser(decoder=D.OmniDecoder(**kw))
            elif how == "other-dialect":
                other = rng.choice([r for r in gt.READERS if r != reader])
                p = strict_parser(pvl, other)
            else:
                class M2(pvl.collections.PVLModule):
                    pass

                class G2(pvl.collections.PVLGroup):
                    pass

                class O2(pvl.collections.PVLObject):
                    pass
                base = strict_parser(pvl, reader)
                p = type(base)(grammar=base.grammar, decoder=base.decoder,
                               module_class=M2, group_class=G2, object_class=O2)
            pvl.loads(text, parser=p)
    except common.CaseTimeout:
        raise
    except Exception:
        pass
    return how


def sep_class(s):
    if s == "":
        return "empty"
    if "#" in s and re.search(r"(^|\s)#", s):
        return "hash-comment"
    if "/*" in s:
        adj = []
        if s.startswith("/*"):
            adj.append("L")
        if s.endswith("*/"):
            adj.append("R")
        return "block-comment" + ("-adjacent" + "".join(adj) if adj else "")
    kinds = set()
    i = 0
    while i < len(s):
        c = s[i]
        if c in " \t":
            kinds.add("sp")
        elif c == "\r" and s[i + 1:i + 2] == "\n":
            kinds.add("crlf")
            i += 1
        elif c == "\n":
            kinds.add("lf")
        elif c == "\r":
            kinds.add("cr")
        elif c == "\f":
            kinds.add("ff")
        elif c == "\v":
            kinds.add("vt")
        i += 1
    return "ws:" + "+".join(sorted(kinds))


def tok_class(t):
    if t is None:
        return "EDGE"
    if t.kind == gt.VAL:
        return "VAL:" + (t.cls or "").split(":")[0]
    return t.kind


def minimise_layout(tokens, seps, plain, fails):
    """Greedy: turn wild separators back into plain ones while *fails(seps)*
    stays true.  Returns the list of gap indexes that must stay wild."""
    cur = list(seps)
    culprits = []
    for i in range(len(cur)):
        if cur[i] == plain[i]:
            continue
        trial = list(cur)
        trial[i] = plain[i]
        if fails(trial):
            cur = trial
        else:
            culprits.append(i)
    return culprits, cur


def gap_feature(tokens, seps, i):
    prev = tokens[i - 1] if i - 1 >= 0 and i - 1 < len(tokens) and i > 0 else None
    nxt = tokens[i] if i < len(tokens) else None
    return {"prev": tok_class(prev), "sep": sep_class(seps[i]),
            "next": tok_class(nxt)}
