"""Shared plumbing for the pvl runtime-monitoring checks.

* locating/importing the library under test from the *working tree*
* a `Rec` recorder (counters, distinct-case hashes, samples, violation records)
  that can be serialised by a worker and merged by the parent
* a subprocess-based sharding runner with a progress watchdog
* known-finding classification, evidence writing, verdict / exit code
"""
import collections
import hashlib
import json
import os
import subprocess
import sys
import time

VERIF = os.path.dirname(os.path.dirname(os.path.abspath(__file__)))
REPO = os.path.abspath(os.environ.get("VERIF_REPO", "/repo"))
PY = "/venv/bin/python"
DEPS = os.path.join(VERIF, ".deps")
WORK = os.path.join(VERIF, ".work")

EXIT_HELD, EXIT_VIOLATION, EXIT_INCONCLUSIVE = 0, 1, 2


# --------------------------------------------------------------------------
# environment
# --------------------------------------------------------------------------
def seed():
    try:
        return int(os.environ.get("VERIF_SEED", "0"))
    except ValueError:
        return 0


def tier(default="quick"):
    t = os.environ.get("VERIF_TIER", default)
    return t if t in ("quick", "thorough") else default


def import_pvl():
    """Import pvl from the working tree under REPO (never a cached copy)."""
    if REPO not in sys.path[:1]:
        sys.path.insert(0, REPO)
    import importlib.util
    import warnings

    warnings.simplefilter("ignore")
    # pvl retries `import dateutil / astropy / pint` on *every* call that can
    # use them; a failing import walks sys.path each time (~10 ms).  They are
    # absent in this sandbox: record that once, so the retry fails fast with
    # the same ImportError.  (Nothing is changed if a package is present.)
    for name in ("dateutil", "astropy", "pint"):
        if name not in sys.modules and importlib.util.find_spec(name) is None:
            sys.modules[name] = None
    _start_reach_recorder()
    import pvl  # noqa

    here = os.path.abspath(pvl.__file__)
    if not here.startswith(REPO + os.sep):
        raise SystemExit(
            f"INCONCLUSIVE: pvl imported from {here}, not from {REPO}"
        )
    return pvl


_REACH = None


def _start_reach_recorder():
    """With VERIF_COVER=<dir> every worker records which lines of pvl/*.py its
    workload executed (sys.monitoring LINE events, each location switched off
    after its first hit) and writes them to <dir>/<pid>.json at exit.  Used by
    tools/reach_report.py to show which anchored code the monitors' workloads
    actually drive; off by default and never part of a verdict."""
    global _REACH
    out = os.environ.get("VERIF_COVER")
    if not out or _REACH is not None or not hasattr(sys, "monitoring"):
        return
    import atexit
    mon = sys.monitoring
    tool = mon.COVERAGE_ID
    try:
        mon.use_tool_id(tool, "verif-reach")
    except ValueError:
        return
    prefix = os.path.join(REPO, "pvl") + os.sep
    seen = set()
    _REACH = seen

    def on_line(code, line):
        fn = code.co_filename
        if fn.startswith(prefix):
            seen.add((fn[len(prefix):], line))
        return mon.DISABLE

    mon.register_callback(tool, mon.events.LINE, on_line)
    mon.set_events(tool, mon.events.LINE)

    def dump():
        os.makedirs(out, exist_ok=True)
        with open(os.path.join(out, f"{os.getpid()}.json"), "w") as f:
            json.dump(sorted(seen), f)

    atexit.register(dump)


def ensure_deps():
    """Install icontract (+deps) offline into /verif/.deps (git-ignored)."""
    marker = os.path.join(DEPS, ".ok")
    if not os.path.exists(marker):
        os.makedirs(DEPS, exist_ok=True)
        lock = os.path.join(DEPS, ".lock")
        import fcntl

        with open(lock, "w") as lf:
            fcntl.flock(lf, fcntl.LOCK_EX)
            if not os.path.exists(marker):
                cmd = [
                    PY, "-m", "pip", "install", "-q", "--no-index",
                    "--find-links", "/opt/veriftools/wheels",
                    "--target", DEPS, "--upgrade", "icontract",
                ]
                r = subprocess.run(cmd, capture_output=True, text=True)
                if r.returncode != 0:
                    raise SystemExit(
                        "INCONCLUSIVE: cannot install icontract offline: "
                        + r.stderr[-400:]
                    )
                open(marker, "w").write("ok\n")
    if DEPS not in sys.path:
        sys.path.append(DEPS)


def ensure_atheris():
    """Install atheris offline into /verif/.deps (git-ignored); returns False
    (with the reason) if that is not possible - the caller reports the fuzz
    stage as not run, never as a verdict."""
    marker = os.path.join(DEPS, ".ok-atheris")
    if not os.path.exists(marker):
        os.makedirs(DEPS, exist_ok=True)
        import fcntl

        with open(os.path.join(DEPS, ".lock-atheris"), "w") as lf:
            fcntl.flock(lf, fcntl.LOCK_EX)
            if not os.path.exists(marker):
                r = subprocess.run(
                    [PY, "-m", "pip", "install", "-q", "--no-index", "--find-links",
                     "/opt/veriftools/wheels", "--target", DEPS, "atheris"],
                    capture_output=True, text=True)
                if r.returncode != 0:
                    return False, r.stderr[-300:]
                open(marker, "w").write("ok\n")
    if DEPS not in sys.path:
        sys.path.append(DEPS)
    return True, ""


def h64(obj) -> str:
    if not isinstance(obj, (bytes, str)):
        obj = repr(obj)
    if isinstance(obj, str):
        obj = obj.encode("utf-8", "surrogatepass")
    return hashlib.blake2b(obj, digest_size=8).hexdigest()


def jsonable(x, depth=0):
    """Best-effort conversion of arbitrary case data into JSON."""
    if depth > 8:
        return repr(x)
    if x is None or isinstance(x, (bool, int, str)):
        return x
    if isinstance(x, float):
        return x if x == x and abs(x) != float("inf") else repr(x)
    if isinstance(x, bytes):
        return {"bytes": x[:200].hex(), "len": len(x)}
    if isinstance(x, dict):
        return {str(k): jsonable(v, depth + 1) for k, v in x.items()}
    if isinstance(x, (list, tuple)):
        return [jsonable(v, depth + 1) for v in x]
    if isinstance(x, (set, frozenset)):
        return {"set": sorted((repr(v) for v in x))}
    return repr(x)


# --------------------------------------------------------------------------
# recorder
# --------------------------------------------------------------------------
class EnoughViolations(BaseException):
    """VERIF_FAILFAST: a worker has seen enough unlisted violations."""


class Rec:
    """Per-shard record of what the monitors observed."""

    MAX_SAMPLES = 12
    MAX_WITNESS_PER_CLASS = 4

    def __init__(self):
        self.c = collections.Counter()
        self.distinct = set()
        self.samples = []
        self.viol = {}  # class key -> {"n":..,"record":.., "witnesses":[..]}
        self.maxes = {}
        self.notes = []
        self.inconclusive = []

    # counters -----------------------------------------------------------
    def count(self, key, n=1):
        self.c[key] += n

    def maxi(self, key, value):
        if value > self.maxes.get(key, float("-inf")):
            self.maxes[key] = value

    def case(self, key, nontrivial=True, sample=None):
        """One evaluated case. *key* identifies the case for distinctness."""
        self.c["evaluations"] += 1
        if nontrivial:
            self.distinct.add(h64(key))
        if sample is not None and len(self.samples) < self.MAX_SAMPLES:
            self.samples.append(jsonable(sample))

    def sample(self, sample):
        if len(self.samples) < self.MAX_SAMPLES:
            self.samples.append(jsonable(sample))

    # violations ---------------------------------------------------------
    def violation(self, check, config, kind, features, witness, message=""):
        """Record one violating observation.

        check/config/kind/features are the *classification* (computed from
        the input by pure feature extractors); witness is what is needed to
        replay it."""
        features = {k: features[k] for k in sorted(features)}
        key = json.dumps([check, config, kind, features], sort_keys=True)
        ent = self.viol.get(key)
        if ent is None:
            ent = self.viol[key] = {
                "n": 0,
                "record": {
                    "check": check, "config": config, "kind": kind,
                    "features": features,
                },
                "witnesses": [],
            }
        ent["n"] += 1
        if len(ent["witnesses"]) < self.MAX_WITNESS_PER_CLASS:
            ent["witnesses"].append(
                {"witness": jsonable(witness), "message": str(message)[:600]}
            )
        self.c["violating_observations"] += 1
        # seed-evaluation tooling only (never set by a registered command):
        # stop a worker once it has seen enough violations that no listed
        # finding explains (some seeded changes make every case slow)
        ff = os.environ.get("VERIF_FAILFAST")
        if ff:
            if not hasattr(self, "_known"):
                self._known = {}
            if check not in self._known:
                self._known[check] = load_known(check)
            if not any(record_matches(e, ent["record"]) for e in self._known[check]):
                self._unlisted = getattr(self, "_unlisted", 0) + 1
                if self._unlisted >= int(ff):
                    raise EnoughViolations()

    def inconc(self, why):
        self.inconclusive.append(str(why))

    # serialisation ------------------------------------------------------
    def to_json(self):
        return {
            "c": dict(self.c),
            "distinct": sorted(self.distinct),
            "samples": self.samples,
            "viol": self.viol,
            "maxes": self.maxes,
            "notes": self.notes,
            "inconclusive": self.inconclusive,
        }

    def merge_json(self, d):
        self.c.update(d["c"])
        self.distinct.update(d["distinct"])
        for s in d["samples"]:
            if len(self.samples) < self.MAX_SAMPLES:
                self.samples.append(s)
        for k, ent in d["viol"].items():
            mine = self.viol.get(k)
            if mine is None:
                self.viol[k] = ent
            else:
                mine["n"] += ent["n"]
                for w in ent["witnesses"]:
                    if len(mine["witnesses"]) < self.MAX_WITNESS_PER_CLASS:
                        mine["witnesses"].append(w)
        for k, v in d["maxes"].items():
            self.maxi(k, v)
        self.notes.extend(d["notes"])
        self.inconclusive.extend(d["inconclusive"])


# --------------------------------------------------------------------------
# sharded execution
# --------------------------------------------------------------------------
def ncpu():
    try:
        n = len(os.sched_getaffinity(0))
    except Exception:
        n = os.cpu_count() or 1
    return max(1, min(16, n))


def run_sharded(prop, nshards, stall_s=600, extra_env=None):
    """Run `python -m vlib.main <prop> --shard i/n` in subprocesses.

    Each worker writes <WORK>/<prop>-<pid>/<i>.json (its Rec) and touches a
    heartbeat file while it makes progress.  A worker whose heartbeat is
    older than *stall_s* is killed and reported as inconclusive (wall clock
    is never an oracle).  Returns the merged Rec.
    """
    rundir = os.path.join(WORK, f"{prop}-{os.getpid()}")
    os.makedirs(rundir, exist_ok=True)
    env = dict(os.environ)
    env.update(extra_env or {})
    env["VERIF_RUNDIR"] = rundir
    procs = []
    for i in range(nshards):
        hb = os.path.join(rundir, f"{i}.hb")
        open(hb, "w").close()
        p = subprocess.Popen(
            [PY, "-m", "vlib.main", prop, "--shard", f"{i}/{nshards}"],
            cwd=VERIF, env=env,
            stdout=open(os.path.join(rundir, f"{i}.out"), "w"),
            stderr=subprocess.STDOUT,
        )
        procs.append((i, p, hb))
    rec = Rec()
    pending = list(procs)
    while pending:
        time.sleep(0.2)
        still = []
        for i, p, hb in pending:
            rc = p.poll()
            if rc is None:
                try:
                    age = time.time() - os.path.getmtime(hb)
                except OSError:
                    age = 0
                if age > stall_s:
                    p.kill()
                    p.wait()
                    rec.inconc(
                        f"shard {i} made no progress for {stall_s}s "
                        "(wall-clock watchdog; not a verdict)"
                    )
                else:
                    still.append((i, p, hb))
                continue
            out = os.path.join(rundir, f"{i}.json")
            if rc == 0 and os.path.exists(out):
                with open(out) as f:
                    rec.merge_json(json.load(f))
            else:
                tail = ""
                try:
                    tail = open(os.path.join(rundir, f"{i}.out")).read()[-1500:]
                except OSError:
                    pass
                rec.inconc(f"shard {i} exited {rc} without a result: {tail}")
        pending = still
    # scratch is removed (replay witnesses are written elsewhere)
    import shutil

    shutil.rmtree(rundir, ignore_errors=True)
    return rec


class Heartbeat:
    """Used inside a worker: touch the heartbeat file every few cases."""

    def __init__(self, shard_index):
        rundir = os.environ.get("VERIF_RUNDIR")
        self.path = (
            os.path.join(rundir, f"{shard_index}.hb") if rundir else None
        )
        self.last = 0.0

    def beat(self):
        if self.path is None:
            return
        now = time.time()
        if now - self.last > 2.0:
            self.last = now
            try:
                os.utime(self.path, None)
            except OSError:
                pass


def write_shard_result(shard_index, rec):
    rundir = os.environ.get("VERIF_RUNDIR")
    if not rundir:
        return
    tmp = os.path.join(rundir, f"{shard_index}.json.tmp")
    with open(tmp, "w") as f:
        json.dump(rec.to_json(), f)
    os.replace(tmp, os.path.join(rundir, f"{shard_index}.json"))


# --------------------------------------------------------------------------
# known findings, evidence, verdict
# --------------------------------------------------------------------------
def load_known(prop):
    path = os.path.join(VERIF, "known_findings.json")
    try:
        with open(path) as f:
            data = json.load(f)
    except FileNotFoundError:
        return []
    return [
        e for e in data.get("findings", [])
        if e.get("property") == prop and e.get("status") == "known"
    ]


def probe_known(entry):
    """Re-execute the recorded minimal witness of a listed finding against the
    library, so that a finding that silently stopped reproducing is visible.
    Informational only (never changes the verdict)."""
    expr = entry.get("probe")
    if not expr:
        return "n/a"
    try:
        pvl = import_pvl()
        import pvl.token, pvl.encoder, pvl.decoder, pvl.parser, pvl.grammar  # noqa

        def raises(f):
            try:
                f()
            except Exception:
                return True
            return False

        def caught(f):
            try:
                f()
            except Exception as e:
                return e
            return None

        with cpu_limit(30):
            return "yes" if eval(expr, {"pvl": pvl, "raises": raises,
                                        "caught": caught}) else "NO"
    except BaseException as e:
        return f"probe failed ({type(e).__name__})"


def _match_value(spec, actual):
    if isinstance(spec, list):
        return actual in spec
    return spec == actual


def record_matches(entry, record):
    m = entry.get("match", {})
    for fld in ("check", "config", "kind"):
        if fld in m and not _match_value(m[fld], record.get(fld)):
            return False
    feats = record.get("features", {})
    for k, spec in m.get("features", {}).items():
        if k not in feats or not _match_value(spec, feats[k]):
            return False
    return True


def finish(prop, rec, *, tier_name, seed_value, rule, t0, min_nontrivial=2,
           extra_cov=None, assumptions=None, exhaustive=None, level=None,
           required_counters=()):
    """Classify violations, write evidence, print verdict, return exit code."""
    known = load_known(prop)
    hits = collections.Counter()
    unknown = []
    for key, ent in sorted(rec.viol.items()):
        for e in known:
            if record_matches(e, ent["record"]):
                hits[e["id"]] += ent["n"]
                break
        else:
            unknown.append(ent)

    # replay files for unknown classes (stale ones of this property go first)
    replay_paths = []
    scratch = REPO != "/repo" or bool(os.environ.get("VERIF_SCRATCH"))  # scratch run: do not touch evidence/
    rdir = os.path.join(WORK, "replay-scratch") if scratch else \
        os.path.join(VERIF, "replay")
    if os.path.isdir(rdir):
        for name in os.listdir(rdir):
            if name.startswith(prop + "-") and name.endswith(".json"):
                try:
                    os.unlink(os.path.join(rdir, name))
                except OSError:
                    pass
    if unknown:
        os.makedirs(rdir, exist_ok=True)
        for ent in unknown:
            name = f"{prop}-{h64(json.dumps(ent['record'], sort_keys=True))}.json"
            path = os.path.join(rdir, name)
            with open(path, "w") as f:
                json.dump(
                    {"property": prop, "record": ent["record"],
                     "n_observations": ent["n"],
                     "witnesses": ent["witnesses"],
                     "seed": seed_value, "tier": tier_name},
                    f, indent=1,
                )
            replay_paths.append(path)

    evaluations = rec.c.get("evaluations", 0)
    distinct = len(rec.distinct)
    inconclusive = list(rec.inconclusive)
    for name in required_counters:
        if rec.c.get(name, 0) <= 0:
            inconclusive.append(f"deciding monitor never reached: {name} == 0")
    if evaluations < 1 or distinct < min_nontrivial:
        inconclusive.append(
            f"too few events: evaluations={evaluations} "
            f"distinct_nontrivial={distinct}"
        )

    cov = {
        "evaluations": int(evaluations),
        "distinct_nontrivial": int(distinct),
        "rule": rule,
        "samples": rec.samples[: Rec.MAX_SAMPLES] or ["<none>"],
        "counters": {k: v for k, v in sorted(rec.c.items())},
        "maxima": rec.maxes,
        "known_finding_hits": dict(hits),
        "cases_inside_listed_classes_certify_nothing": int(sum(hits.values())),
        "unlisted_violation_classes": [e["record"] for e in unknown],
        "inconclusive_reasons": inconclusive,
        "repo": REPO,
    }
    if exhaustive is not None:
        cov["exhaustive"] = bool(exhaustive)
    if extra_cov:
        cov.update(extra_cov)
    ev = {
        "property_id": prop,
        "tier": tier_name,
        "seed": int(seed_value),
        "level": level or "exploration",
        "coverage": cov,
        "assumptions": assumptions or [],
        "wall_s": round(time.time() - t0, 2),
        "violations": int(sum(e["n"] for e in unknown)),
    }
    edir = os.path.join(WORK, "evidence-scratch") if scratch else \
        os.path.join(VERIF, "evidence")
    os.makedirs(edir, exist_ok=True)
    tmp = os.path.join(edir, f"{prop}.json.tmp")
    with open(tmp, "w") as f:
        json.dump(ev, f, indent=1, sort_keys=False)
    os.replace(tmp, os.path.join(edir, f"{prop}.json"))

    print(
        f"{prop} tier={tier_name} seed={seed_value}: evaluations={evaluations} "
        f"distinct_nontrivial={distinct} wall={ev['wall_s']}s"
    )
    for e in known:
        print(
            f"KNOWN-FINDING: property={prop} {e['id']}: {e['what']} "
            f"[observations this run: {hits.get(e['id'], 0)}; recorded witness "
            f"still reproduces: {probe_known(e)}]"
        )
    if unknown:
        for ent, path in zip(unknown, replay_paths):
            w = ent["witnesses"][0] if ent["witnesses"] else {}
            print(
                f"  violating class {json.dumps(ent['record'], sort_keys=True)} "
                f"n={ent['n']} e.g. {json.dumps(w)[:400]}"
            )
            print(f"VIOLATION property={prop} replay={path}")
        return EXIT_VIOLATION
    if inconclusive:
        for why in inconclusive[:10]:
            print(f"INCONCLUSIVE property={prop}: {why}")
        return EXIT_INCONCLUSIVE
    print(f"HELD property={prop} on everything explored")
    return EXIT_HELD


# --------------------------------------------------------------------------
# per-case CPU-time budget (back-stop for spins the pull budget cannot see)
# --------------------------------------------------------------------------
class CaseTimeout(BaseException):
    """Raised in the worker when one case used more CPU time than allowed.
    BaseException: pvl swallows Exception in parse_module()."""


class cpu_limit:
    """with cpu_limit(20): ...   -- ITIMER_VIRTUAL counts this process's own
    user CPU time, so the verdict does not depend on machine load."""

    def __init__(self, seconds):
        self.seconds = seconds

    def _fire(self, signum, frame):
        raise CaseTimeout(f"case used more than {self.seconds}s of CPU")

    def __enter__(self):
        import signal

        self._old = signal.signal(signal.SIGVTALRM, self._fire)
        signal.setitimer(signal.ITIMER_VIRTUAL, self.seconds)
        return self

    def __exit__(self, *exc):
        import signal

        signal.setitimer(signal.ITIMER_VIRTUAL, 0)
        signal.signal(signal.SIGVTALRM, self._old)
        return False


def rotated(seq, i):
    """The order in which a worker takes up the dialects depends on the shard:
    which dialect a process uses FIRST must not matter (class-level state that
    one dialect leaves behind for its sub- or super-classes shows only in some
    orders)."""
    seq = list(seq)
    k = (i // 2) % len(seq) if seq else 0
    out = seq[k:] + seq[:k]
    if i % 2:
        out.reverse()
    return out


class Pristine:
    """A copy of this process forked before it processed anything.  Every
    request is answered by a further fork of that copy, so each answer comes
    from a process in which nothing else has been loaded, dumped or decoded:
    the reference for "this input alone".  Create it first thing in a worker.
    fn(request) must return something picklable."""

    def __init__(self, fn):
        import pickle
        self._pickle = pickle
        req_r, req_w = os.pipe()
        res_r, res_w = os.pipe()
        pid = os.fork()
        if pid == 0:
            code = 0
            try:
                os.close(req_w)
                os.close(res_r)
                self._serve(fn, req_r, res_w)
            except BaseException:
                code = 1
            finally:
                os._exit(code)
        os.close(req_r)
        os.close(res_w)
        self.pid, self._w, self._r = pid, req_w, res_r
        self.requests = 0

    @staticmethod
    def _read(fd, n):
        buf = b""
        while len(buf) < n:
            chunk = os.read(fd, n - len(buf))
            if not chunk:
                raise EOFError
            buf += chunk
        return buf

    def _send(self, fd, obj):
        data = self._pickle.dumps(obj)
        os.write(fd, len(data).to_bytes(8, "big"))
        view = memoryview(data)
        while view:
            k = os.write(fd, view[:65536])
            view = view[k:]

    def _recv(self, fd):
        n = int.from_bytes(self._read(fd, 8), "big")
        return self._pickle.loads(self._read(fd, n))

    def _serve(self, fn, req_r, res_w):
        while True:
            try:
                req = self._recv(req_r)
            except EOFError:
                return
            r, w = os.pipe()
            pid = os.fork()
            if pid == 0:
                code = 0
                try:
                    os.close(r)
                    try:
                        out = ("ok", fn(req))
                    except BaseException as e:  # noqa: B902
                        out = ("error", f"{type(e).__name__}: {e}"[:300])
                    self._send(w, out)
                except BaseException:
                    code = 1
                finally:
                    os._exit(code)
            os.close(w)
            try:
                out = self._recv(r)
            except EOFError:
                out = ("error", "pristine child died without an answer")
            os.close(r)
            os.waitpid(pid, 0)
            self._send(res_w, out)

    def ask(self, request):
        self.requests += 1
        self._send(self._w, request)
        status, out = self._recv(self._r)
        if status != "ok":
            raise RuntimeError(f"pristine reference failed: {out}")
        return out

    def close(self):
        try:
            os.close(self._w)
            os.close(self._r)
            os.waitpid(self.pid, 0)
        except OSError:
            pass
