"""Lexer-trace proxy passed through the public lexer_fn= parameter (DESIGN 3.5).

Records the parser/lexer conversation (pull, fresh token, redelivered token,
send-back, throw, eof) and enforces a logical step budget online."""


class Spin(BaseException):
    """The parser pulled far more often than the text has characters:
    it is spinning without consuming text.  BaseException on purpose
    (parse_module swallows Exception)."""


class Trace:
    __slots__ = ("pulls", "fresh", "redelivered", "sends", "throws", "eof",
                 "budget", "text_len", "pulls_after_end", "end_seen",
                 "dead_after_throw", "fresh_eq", "last_pos", "last_len")

    def __init__(self, text_len, factor=50):
        self.pulls = 0
        self.fresh = []          # (text, pos)
        self.redelivered = 0
        self.sends = 0
        self.throws = 0
        self.eof = False
        self.budget = factor * (text_len + 2)
        self.text_len = text_len
        self.pulls_after_end = 0
        self.end_seen = False
        self.dead_after_throw = False
        self.fresh_eq = 0
        self.last_pos = -1
        self.last_len = 0


class LexerProxy:
    def __init__(self, gen, trace, end_words=("end",)):
        self._gen = gen
        self.t = trace
        self._pending = False
        self._end_words = end_words

    def __iter__(self):
        return self

    def __next__(self):
        t = self.t
        t.pulls += 1
        if t.end_seen:
            t.pulls_after_end += 1
        if t.pulls > t.budget:
            raise Spin(f"{t.pulls} pulls for {t.text_len} characters")
        try:
            tok = next(self._gen)
        except StopIteration:
            t.eof = True
            raise
        if self._pending:
            self._pending = False
            t.redelivered += 1
        elif tok is not None:
            t.fresh.append((str(tok), getattr(tok, "pos", None)))
            if tok == "=":
                t.fresh_eq += 1
            t.last_pos = getattr(tok, "pos", -1)
            t.last_len = len(tok)
        return tok

    def send(self, value):
        self.t.sends += 1
        self._pending = True
        return self._gen.send(value)

    def throw(self, *args):
        self.t.throws += 1
        try:
            return self._gen.throw(*args)
        except BaseException:
            self.t.dead_after_throw = True
            raise

    def close(self):
        return self._gen.close()

    def mark_end_consumed(self):
        self.t.end_seen = True


def make_lexer_fn(pvl, holder, factor=50):
    """Returns a lexer_fn for PVLParser(...); holder['trace'] is the Trace of
    the most recent parse() call."""
    real = pvl.lexer.lexer

    def lexer_fn(s, g=None, d=None):
        tr = Trace(len(s), factor)
        holder["trace"] = tr
        holder["text"] = s
        kwargs = {}
        if g is not None:
            kwargs["g"] = g
        if d is not None:
            kwargs["d"] = d
        proxy = LexerProxy(real(s, **kwargs), tr)
        holder["proxy"] = proxy
        return proxy

    return lexer_fn


def traced_parser(pvl, reader, holder, factor=50):
    """The strict parser of *reader* with the trace proxy installed.
    "<reader>+Decimal": the same with real_cls=decimal.Decimal."""
    P, G, D = pvl.parser, pvl.grammar, pvl.decoder
    fn = make_lexer_fn(pvl, holder, factor)
    dk = {}
    if reader.endswith("+Decimal"):
        import decimal
        reader = reader.split("+")[0]
        dk = {"real_cls": decimal.Decimal}
    if reader == "PVL":
        return P.PVLParser(grammar=G.PVLGrammar(), decoder=D.PVLDecoder(**dk),
                           lexer_fn=fn)
    if reader == "ODL":
        return P.ODLParser(grammar=G.ODLGrammar(), decoder=D.ODLDecoder(**dk),
                           lexer_fn=fn)
    if reader == "PDS3":
        return P.ODLParser(grammar=G.PDSGrammar(), decoder=D.PDSLabelDecoder(),
                           lexer_fn=fn)
    if reader == "ISIS":
        g = G.ISISGrammar()
        return P.OmniParser(grammar=g, decoder=D.OmniDecoder(grammar=g, **dk),
                            lexer_fn=fn)
    if reader == "default":
        if dk:
            return P.OmniParser(decoder=D.OmniDecoder(**dk), lexer_fn=fn)
        return P.OmniParser(lexer_fn=fn)
    raise KeyError(reader)


def count_statements(module):
    """(assignments, blocks) at every level of a returned module."""
    a = b = 0
    for _, v in list(module):
        if isinstance(v, dict):
            b += 1
            a2, b2 = count_statements(v)
            a += a2
            b += b2
        else:
            a += 1
    return a, b


def trace_laws(tr, module):
    """Oracle-free laws over one trace of a load that RETURNED a module.
    Returns a list of (kind, detail)."""
    out = []
    a, b = count_statements(module)
    if not (a + b <= tr.fresh_eq <= a + 2 * b):
        out.append(("equals-not-conserved",
                    f"{tr.fresh_eq} '=' tokens delivered, result has {a} "
                    f"assignments and {b} blocks"))
    if tr.throws:
        out.append(("returned-after-error-thrown-into-lexer",
                    f"{tr.throws} throw(s) into the lexer, yet a module came back"))
    # coverage law: a module may only come back after the END statement was
    # consumed or after the lexer ran through the whole text
    last = tr.fresh[-1][0] if tr.fresh else None
    ended = last is not None and last.casefold() == "end"
    if not ended and not tr.eof:
        out.append(("returned-before-the-end-of-the-text",
                    f"module returned after the token {last!r:.40} although the "
                    "lexer had not reached the end of the text and no END "
                    "statement was read"))
    return out
