"""The documented-normalisation relation  orig ~_D loaded  (DESIGN 3.7).

compare(orig, loaded, rules) returns None when `loaded` equals `orig` in
structure, order, multiplicity, Python types and values after exactly the
rewrites enabled in `rules`, else a (path, why) tuple.  Implemented without
any help from the library's decoder.
"""
import datetime as dt
import re

UTC = dt.timezone.utc


class Rules:
    def __init__(self, upper_names=False, fold_strings=False, naive_is_utc=False,
                 group_may_become_object=False):
        self.upper_names = upper_names
        self.fold_strings = fold_strings
        self.naive_is_utc = naive_is_utc
        self.group_may_become_object = group_may_become_object


def rules_for(writer, reader):
    """writer in PVL/ODL/PDS3/ISIS/None ; reader in PVL/ODL/PDS3/ISIS/default."""
    return Rules(
        upper_names=writer in ("ODL", "PDS3"),
        fold_strings=reader in ("ODL", "PDS3", "ISIS", "default"),
        naive_is_utc=reader in ("PVL", "PDS3", "ISIS", "default"),
        group_may_become_object=writer == "PDS3",
    )


_WS = " \t\n\r\v\f"


def fold(s):
    s = re.sub(r"-[\n\r\v\f][ \t\n\r\v\f]*", "", s)
    return re.sub(r"[ \t\n\r\v\f]+", " ", s.strip(_WS))


def is_container(x):
    return hasattr(x, "getall") and hasattr(x, "append") and isinstance(x, dict)


def kind(x):
    n = type(x).__name__
    return n


def leaf_canon(v, rules):
    """Canonical hashable form of a leaf / aggregate value on the ORIGINAL
    side (rewrites applied) - used for sets."""
    return _canon(v, rules, True)


def _canon(v, rules, orig_side):
    if v is None:
        return ("none",)
    if isinstance(v, bool):
        return ("bool", v)
    if isinstance(v, int):
        return ("int", v)
    if isinstance(v, float):
        return ("float", repr(v))
    if isinstance(v, str):
        s = str(v)
        if rules.fold_strings and orig_side:
            s = fold(s)
        return ("str", s)
    if isinstance(v, dt.datetime):
        if v.tzinfo is None and rules.naive_is_utc and orig_side:
            v = v.replace(tzinfo=UTC)
        return ("datetime", v.replace(tzinfo=None).isoformat(),
                None if v.tzinfo is None else v.utcoffset().total_seconds())
    if isinstance(v, dt.date):
        return ("date", v.isoformat())
    if isinstance(v, dt.time):
        if v.tzinfo is None and rules.naive_is_utc and orig_side:
            v = v.replace(tzinfo=UTC)
        return ("time", v.replace(tzinfo=None).isoformat(),
                None if v.tzinfo is None else v.utcoffset().total_seconds())
    if type(v).__name__ == "Quantity" or (
            isinstance(v, tuple) and hasattr(v, "units") and hasattr(v, "value")):
        return ("quantity", _canon(v.value, rules, orig_side), ("units", str(v.units)))
    if isinstance(v, list):
        return ("list", tuple(_canon(x, rules, orig_side) for x in v))
    if isinstance(v, (set, frozenset)):
        # folding can make two written elements equal: a set has no multiplicity
        return ("set", tuple(sorted({_canon(x, rules, orig_side) for x in v},
                                    key=repr)))
    if isinstance(v, tuple):
        return ("tuple", tuple(_canon(x, rules, orig_side) for x in v))
    return ("other", type(v).__name__, repr(v))


def compare(orig, loaded, rules, path="$"):
    if is_container(orig):
        if not is_container(loaded):
            return (path, f"container {type(orig).__name__} became "
                          f"{type(loaded).__name__}")
        to, tl = type(orig).__name__, type(loaded).__name__
        if to != tl:
            ok = (rules.group_may_become_object and to == "PVLGroup"
                  and tl == "PVLObject")
            if not ok:
                return (path, f"class {to} became {tl}")
        lo, ll = list(orig), list(loaded)
        if len(lo) != len(ll):
            return (path, f"{len(lo)} statements became {len(ll)}: "
                          f"{[k for k, _ in lo]} -> {[k for k, _ in ll]}")
        for idx, ((ko, vo), (kl, vl)) in enumerate(zip(lo, ll)):
            name_is_param = not is_container(vo)
            want = ko.upper() if (rules.upper_names and name_is_param) else ko
            if str(kl) != want or type(kl) is not str and not isinstance(kl, str):
                return (f"{path}[{idx}]", f"name {ko!r} became {kl!r}")
            r = compare(vo, vl, rules, f"{path}[{idx}]{ko}")
            if r:
                return r
        return None
    if is_container(loaded):
        return (path, f"value {orig!r} became a container")
    co, cl = _canon(orig, rules, True), _canon(loaded, rules, False)
    if co != cl:
        return (path, f"{orig!r} ({type(orig).__name__}) became {loaded!r} "
                      f"({type(loaded).__name__})", orig, loaded)
    return None


def clone(x):
    """Structural clone (copy.deepcopy is itself under test, C11)."""
    if is_container(x):
        c = type(x)()
        for k, v in list(x):
            c.append(k, clone(v))
        if hasattr(x, "errors"):
            c.errors = list(x.errors)
        return c
    if isinstance(x, list):
        return [clone(v) for v in x]
    if isinstance(x, set):
        return {clone(v) for v in x}
    if isinstance(x, frozenset):
        return frozenset(clone(v) for v in x)
    if type(x).__name__ == "Quantity":
        return type(x)(clone(x.value), x.units)
    return x  # immutable leaves


def snapshot(x):
    """Deep structural snapshot incl. container identity-free class/order."""
    if is_container(x):
        return (type(x).__name__, tuple((k, snapshot(v)) for k, v in list(x)))
    if type(x) is dict:
        return ("dict", tuple((k, snapshot(v)) for k, v in x.items()))
    if isinstance(x, list):
        return ("list", tuple(snapshot(v) for v in x))
    if isinstance(x, (set, frozenset)):
        return (type(x).__name__, tuple(sorted(repr(snapshot(v)) for v in x)))
    if isinstance(x, tuple):
        return (type(x).__name__, tuple(snapshot(v) for v in x))
    return (type(x).__name__, repr(x))
