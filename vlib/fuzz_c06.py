"""Coverage-guided stage of C06 (atheris / libFuzzer), one process per shard.

  python -m vlib.fuzz_c06 --shard I --seed S --runs N --out FILE --work DIR

The first input byte picks one of the five parser configurations, the rest is
the text (UTF-8, undecodable bytes replaced).  The oracle is C06's own
(c06.run_one): only LexerError / ParseError may escape, pulls are bounded by
the text length, 20 s CPU back-stop.  Violations are recorded, not raised, so
one defect does not hide the others; the recorder is written to FILE every few
thousand executions and whenever a violation is seen (libFuzzer ends the
process itself)."""
import argparse
import json
import os
import sys


def main():
    ap = argparse.ArgumentParser()
    ap.add_argument("--shard", type=int, default=0)
    ap.add_argument("--seed", type=int, default=0)
    ap.add_argument("--runs", type=int, default=10000)
    ap.add_argument("--out", required=True)
    ap.add_argument("--work", required=True)
    ap.add_argument("--prop", default="C06")
    a = ap.parse_args()

    from . import common
    ok, why = common.ensure_atheris()
    if not ok:
        json.dump({"not_run": why}, open(a.out, "w"))
        return 0
    import atheris
    if common.REPO not in sys.path[:1]:
        sys.path.insert(0, common.REPO)
    with atheris.instrument_imports(include=["pvl"], enable_loader_override=False):
        pvl = common.import_pvl()
    from . import gen_text as gt
    from .props import c05, c06

    rec = common.Rec()
    holder = {}
    state = {"n": 0, "viol": 0, "calls": 0}

    def flush():
        tmp = a.out + ".tmp"
        with open(tmp, "w") as f:
            json.dump({"rec": rec.to_json(), "executions": state["n"]}, f)
        os.replace(tmp, a.out)

    def one(data):
        state["calls"] += 1
        if state["calls"] >= a.runs - 2:
            flush()     # libFuzzer leaves through exit(): nothing runs after it
        if not data:
            return
        reader = gt.READERS[data[0] % len(gt.READERS)]
        text = data[1:].decode("utf-8", errors="replace")
        state["n"] += 1
        rec.count("fuzz_executions")
        rec.case(("fuzz", reader, text), text != "")
        if a.prop == "C06":
            c06.run_one(rec, pvl, reader, text, holder, "coverage-guided")
        else:
            c05.judge_by_laws(rec, pvl, reader, text,
                              {"reader": reader, "text": text}, holder,
                              "coverage-guided")
        nv = rec.c.get("violating_observations", 0)
        if state["n"] % 4000 == 0 or nv != state["viol"]:
            state["viol"] = nv
            flush()

    corpus = os.path.join(a.work, "corpus")
    os.makedirs(corpus, exist_ok=True)
    k = 0
    for name, t in c06.corpus_texts(pvl):
        for reader_i in range(len(gt.READERS)):
            if (k + reader_i) % 16 == a.shard % 16 or len(t) < 400:
                with open(os.path.join(corpus, f"s{k}_{reader_i}"), "wb") as f:
                    f.write(bytes([reader_i]) + t[:1500].encode("utf-8"))
        k += 1
    import random
    rng = random.Random(f"fuzz-{a.prop}-{a.seed}-{a.shard}")
    for j in range(40):
        reader_i = rng.randrange(len(gt.READERS))
        doc = gt.gen_document(rng, gt.READERS[reader_i], max_top=4)
        t = gt.render(doc.tokens, gt.gen_layout(rng, doc.tokens, gt.READERS[reader_i],
                                                "wild"))
        with open(os.path.join(corpus, f"g{j}"), "wb") as f:
            f.write(bytes([reader_i]) + t[:1500].encode("utf-8"))
    dict_path = os.path.join(a.work, "pvl.dict")
    with open(dict_path, "w") as f:
        for w in ("BEGIN_GROUP", "END_GROUP", "BEGIN_OBJECT", "END_OBJECT", "GROUP",
                  "OBJECT", "END", "End_Group", "=", "/*", "*/", "#", "<", ">", "(",
                  ")", "{", "}", ",", ";", "'", '\\"', "16#", "#FF#", "2#", "-\\x0a",
                  "NULL", "TRUE", "1.5e3", "2001-01-01T12:00:60", "12:00+05", "^",
                  "\\x0d\\x0a", " = ", "<m>", "&", "\\x0c", "\\xc3\\xa9"):
            f.write('"' + w + '"\n')
    flush()
    argv = [sys.argv[0], corpus, f"-seed={a.seed * 100 + a.shard + 1}",
            f"-runs={a.runs}", "-max_len=600", "-timeout=300", f"-dict={dict_path}",
            "-print_final_stats=1", "-verbosity=0",
            f"-artifact_prefix={a.work}/"]
    atheris.Setup(argv, one)
    atheris.Fuzz()


if __name__ == "__main__":
    sys.exit(main())
