"""Reference recogniser/evaluator over token lists (DESIGN 3.4).

Works on gen_text.Tok lists (never on text, so it needs no lexer).  Returns
("ok", tree) | ("ill", reason) | ("ambiguous", why).  Trees use the same
representation as gen_text (name, value | Block).

The per-token role tables (may this token stand as a parameter name / as a
simple value for this reader?) are derived from the token's generator class,
not from the library.
"""
from . import gen_text as gt


class Ill(Exception):
    def __init__(self, reason):
        self.reason = reason


class Ambiguous(Exception):
    pass


ODL = ("ODL", "PDS3")
OMNI = ("ISIS", "default")   # readers with the C08 missing-value tolerance


def _is_ident(s):
    import re
    return re.fullmatch(r"[A-Za-z](?:[A-Za-z0-9_]*[A-Za-z0-9])?", s) is not None


def role(tok, reader):
    """Returns a set drawn from {'name', 'value'} for word-like tokens."""
    k = tok.kind
    if k == gt.NAME:
        r = {"name"}
        # a name used as a value is an unquoted string (ODL: identifiers only)
        if reader not in ODL or _is_ident(tok.text):
            r.add("value")
        return r
    if k == gt.VAL:
        cls = tok.cls or ""
        if cls.startswith("keyword"):
            return {"value", "name?"}     # NULL = 1 : not reserved by the specs
        if cls.startswith("unquoted"):
            return {"value", "name"}
        return {"value"}
    return set()


class Recogniser:
    def __init__(self, toks, reader):
        self.t = toks
        self.i = 0
        self.reader = reader
        self.missing = []         # names whose value was absent (C08 tolerance)

    def peek(self, k=0):
        j = self.i + k
        return self.t[j] if j < len(self.t) else None

    def take(self):
        tok = self.peek()
        self.i += 1
        return tok

    # ------------------------------------------------------------------
    def module(self):
        items = []
        while True:
            tok = self.peek()
            if tok is None:
                return items
            if tok.kind == gt.END:
                return items            # everything after END is ignored
            items.append(self.statement())

    def statement(self):
        tok = self.peek()
        if tok.kind == gt.BEGIN:
            if self.reader == "ISIS" and tok.text.upper().startswith("BEGIN_"):
                # the ISIS grammar has no BEGIN_GROUP / BEGIN_OBJECT keywords
                # (and the words are reserved, so they are no names either)
                raise Ill("begin-keyword-unknown-to-this-dialect")
            return self.block()
        if tok.kind in (gt.NAME, gt.VAL):
            r = role(tok, self.reader)
            if "name" in r:
                return self.assign()
            if "name?" in r:
                raise Ambiguous(f"keyword-valued word {tok.text!r} in name position")
            raise Ill(f"stray-token:{tok.kind}")
        if tok.kind == gt.DAMAGED:
            raise Ill("damaged-token")
        raise Ill(f"stray-token:{tok.kind}")

    def delimiter(self):
        tok = self.peek()
        if tok is not None and tok.kind == gt.SEMI:
            self.take()

    def expect_eq(self, after):
        tok = self.peek()
        if tok is None or tok.kind != gt.EQ:
            raise Ill(f"{after}-needs-equals")
        self.take()

    def name(self, what):
        tok = self.peek()
        if tok is None:
            raise Ill(f"{what}-missing-at-end-of-text")
        r = role(tok, self.reader) if tok.kind in (gt.NAME, gt.VAL) else set()
        if "name" in r:
            return self.take().text
        if "name?" in r:
            raise Ambiguous("keyword-valued word as a name")
        raise Ill(f"{what}-expected-got-{tok.kind}")

    def assign(self):
        name = self.take().text
        self.expect_eq("assign")
        value = self.value_or_missing(name)
        self.delimiter()
        return (name, value)

    def value_or_missing(self, name):
        """C08: the Omni-based readers tolerate an absent value when what
        follows is the next statement, a block keyword, ';', END or EOF."""
        tok = self.peek()
        if self.reader in OMNI:
            nxt = self.peek(1)
            absent = (
                tok is None
                or tok.kind in (gt.SEMI, gt.BEGIN, gt.ENDKW, gt.END)
                or (tok.kind in (gt.NAME, gt.VAL) and nxt is not None
                    and nxt.kind == gt.EQ)
            )
            if absent:
                if tok is not None and tok.kind in (gt.NAME, gt.VAL) and \
                        "name" not in role(tok, self.reader):
                    if "name?" in role(tok, self.reader):
                        raise Ambiguous("keyword-valued word before '='")
                    # `a = 5 = 3`: the thing before '=' is not a name
                    return self.value()
                self.missing.append(name)
                return gt.Missing()
        return self.value()

    def value(self):
        tok = self.peek()
        if tok is None:
            raise Ill("value-missing-at-end-of-text")
        if tok.kind == gt.LP:
            v = self.seq(gt.LP, gt.RP, gt.COMMA)
        elif tok.kind == gt.LB:
            members = self.seq(gt.LB, gt.RB, gt.COMMA)
            if self.reader in ODL and any(
                    isinstance(x, (list, frozenset)) for x in members):
                raise Ill("odl-set-holds-non-scalar")
            v = frozenset_safe(members)
        elif tok.kind in (gt.VAL, gt.NAME):
            if "value" not in role(tok, self.reader):
                raise Ill(f"expected-value-got-{tok.kind}")
            self.take()
            v = tok.value if tok.kind == gt.VAL else tok.text
        elif tok.kind == gt.DAMAGED:
            raise Ill("damaged-token")
        else:
            raise Ill(f"expected-value-got-{tok.kind}")
        nxt = self.peek()
        if nxt is not None and nxt.kind == gt.UNITS:
            if self.reader in ODL and not (
                    isinstance(v, (int, float)) and not isinstance(v, bool)):
                raise Ill("units-after-non-number")
            self.take()
            u = nxt.text[1:-1].strip(" \t\n\r\f\v")
            return gt.Q(v, u)
        return v

    def seq(self, open_k, close_k, comma_k):
        self.take()
        items = []
        tok = self.peek()
        if tok is not None and tok.kind == close_k:
            self.take()
            return items
        while True:
            items.append(self.value())
            tok = self.peek()
            if tok is None:
                raise Ill("unterminated-set-or-sequence")
            if tok.kind == close_k:
                self.take()
                return items
            if tok.kind == comma_k:
                self.take()
                continue
            raise Ill("expected-comma-or-close")

    def block(self):
        begin = self.take()
        self.expect_eq("begin")
        name = self.name("block-name")
        self.delimiter()
        items = []
        while True:
            tok = self.peek()
            if tok is None:
                raise Ill("block-left-open")
            if tok.kind == gt.END:
                raise Ill("block-left-open-before-END")
            if tok.kind == gt.ENDKW:
                if tok.cls != begin.cls:
                    raise Ill("end-keyword-does-not-pair")
                self.take()
                nxt = self.peek()
                if nxt is not None and nxt.kind == gt.EQ:
                    self.take()
                    n2 = self.peek()
                    if n2 is None:
                        raise Ill("end-name-missing-at-end-of-text")
                    if n2.kind not in (gt.NAME, gt.VAL) or n2.text != name:
                        raise Ill("end-name-does-not-match")
                    self.take()
                self.delimiter()
                return (name, gt.Block(begin.cls, items))
            items.append(self.statement())


def frozenset_safe(items):
    try:
        return frozenset(gt._hashable(x) for x in items)
    except TypeError:
        raise Ambiguous("sequence inside a set (not representable)")


def recognise(toks, reader):
    r = Recogniser(toks, reader)
    try:
        tree = r.module()
        return ("ok", tree, r.missing)
    except Ill as e:
        return ("ill", e.reason, r.i)      # r.i: index of the offending token
    except Ambiguous as e:
        return ("ambiguous", str(e), None)
