"""Specification-derived reader/renderer of PVL/ODL date and time text (C14).

Nothing here uses strptime format tables or the library: fields are matched
by one regular expression written from the Blue Book / ODL BNF and turned
into Python objects with the datetime constructors.
"""
import datetime as dt
import re

UTC = dt.timezone.utc

DIALECTS = ("PVL", "ODL", "PDS3", "ISIS", "default")

_DATE = r"(?P<Y>\d{4})-(?:(?P<M>\d{2})-(?P<D>\d{2})|(?P<J>\d{3}))"
_TIME = r"(?P<h>\d{2}):(?P<m>\d{2})(?::(?P<s>\d{2})(?:\.(?P<f>\d{1,6}))?)?"
_ZONE = r"(?P<z>Z|[+-]\d{1,2}(?::\d{2})?)?"
DATE_RE = re.compile(_DATE + r"\Z")
TIME_RE = re.compile(_TIME + _ZONE + r"\Z")
DATETIME_RE = re.compile(_DATE + "T" + _TIME + _ZONE + r"\Z")

HAS_DEFAULT_UTC = {"PVL": True, "ODL": False, "PDS3": True, "ISIS": True,
                   "default": True}
ACCEPTS_OFFSET = {"PVL": False, "ODL": True, "PDS3": False, "ISIS": True,
                  "default": True}
KEEPS_LEAP_AS_TEXT = {"PVL": True, "ODL": False, "PDS3": False, "ISIS": True,
                      "default": True}


def _date(g):
    y = int(g["Y"])
    if y < 1:
        return None
    try:
        if g["J"] is not None:
            j = int(g["J"])
            leap = y % 4 == 0 and (y % 100 != 0 or y % 400 == 0)
            if not 1 <= j <= (366 if leap else 365):
                return None
            return dt.date(y, 1, 1) + dt.timedelta(days=j - 1)
        return dt.date(y, int(g["M"]), int(g["D"]))
    except (ValueError, OverflowError):
        return None


def _zone(z):
    if z is None:
        return "none", None
    if z == "Z":
        return "Z", UTC
    sign = -1 if z[0] == "-" else 1
    hh, _, mm = z[1:].partition(":")
    h, m = int(hh), int(mm or 0)
    if h > 23 or m > 59:
        return "bad", None
    return "offset", dt.timezone(sign * dt.timedelta(hours=h, minutes=m))


def read(text, dialect):
    """Returns ('date'|'time'|'datetime', value) / ('leap', text) /
    ('rejected', why) / ('not-temporal', None) for *text* in *dialect*."""
    m = DATE_RE.match(text)
    if m:
        d = _date(m.groupdict())
        return ("date", d) if d else ("not-temporal", None)
    m = TIME_RE.match(text)
    kind = "time"
    if not m:
        m = DATETIME_RE.match(text)
        kind = "datetime"
    if not m:
        return ("not-temporal", None)
    g = m.groupdict()
    h, mi = int(g["h"]), int(g["m"])
    s = int(g["s"]) if g["s"] is not None else 0
    us = int(g["f"].ljust(6, "0")) if g["f"] else 0
    if h > 23 or mi > 59 or s > 60:
        return ("not-temporal", None)
    d = None
    if kind == "datetime":
        d = _date(g)
        if d is None:
            return ("not-temporal", None)
    zk, tz = _zone(g["z"])
    if zk == "bad":
        return ("not-temporal", None)
    if s == 60 and zk == "offset":
        return ("not-temporal", None)
    if zk == "offset" and not ACCEPTS_OFFSET[dialect]:
        # the property states the rejection for PDS3 only; in PVL such text
        # is simply not a date/time (no claim)
        if dialect == "PDS3":
            return ("rejected", "zone offset not in this dialect")
        return ("not-temporal", None)
    if s == 60:
        if KEEPS_LEAP_AS_TEXT[dialect]:
            return ("leap", text)
        return ("rejected", "seconds = 60")
    if dialect == "PDS3" and us % 1000:
        return ("rejected", "sub-millisecond precision")
    if tz is None and HAS_DEFAULT_UTC[dialect]:
        tz = UTC
    if kind == "time":
        return ("time", dt.time(h, mi, s, us, tzinfo=tz))
    return ("datetime", dt.datetime(d.year, d.month, d.day, h, mi, s, us,
                                    tzinfo=tz))


def render_date(d, form):
    if form == "ymd":
        return f"{d.year:04d}-{d.month:02d}-{d.day:02d}"
    return f"{d.year:04d}-{d.timetuple().tm_yday:03d}"


def render_time(h, m, s, frac, zone):
    """s None -> HH:MM ; frac '' -> no fraction ; zone '' / 'Z' / '+05' ..."""
    t = f"{h:02d}:{m:02d}"
    if s is not None:
        t += f":{s:02d}"
        if frac:
            t += "." + frac
    return t + zone
