"""Generator of modules "built from values a dialect can represent" (DESIGN 3.2).

Every leaf is drawn from a named *class* (counted in the evidence).  A leaf
also carries `rep`: True if the dialect can represent it (the property's
antecedent), False if it cannot (then only the *refusal type* is judged).
Nothing here imports the library's encoder/decoder; container classes and
Quantity come from pvl.collections.
"""
import datetime as dt
import re

DIALECTS = ("PVL", "ODL", "PDS3", "ISIS")
UTC = dt.timezone.utc

IDENT = re.compile(r"[A-Za-z](?:[A-Za-z0-9_]*[A-Za-z0-9])?\Z")
KEYWORDS = {"end", "group", "object", "begin_group", "begin_object",
            "end_group", "end_object", "null", "true", "false"}

PVL_ALLOWED = lambda o: o <= 255 and not (o <= 8) and not (14 <= o <= 31) \
    and not (127 <= o <= 159)  # noqa: E731


def in_charset(dialect, s):
    if dialect in ("ODL", "PDS3"):
        return all(ord(c) < 128 for c in s)
    return all(PVL_ALLOWED(ord(c)) for c in s)


class Leaf:
    __slots__ = ("value", "cls", "rep")

    def __init__(self, value, cls, rep=True):
        self.value, self.cls, self.rep = value, cls, rep


# --------------------------------------------------------------------------
# strings
# --------------------------------------------------------------------------
WORDS = ["alpha", "Beta", "GAMMA", "x", "Mars", "orbit", "a1", "N_2", "km"]
KEYWORD_LIKE = ["NULL", "null", "Null", "TRUE", "true", "False", "FALSE",
                "END", "End", "end", "GROUP", "group", "Object", "OBJECT",
                "BEGIN_GROUP", "begin_object", "END_GROUP", "End_Object",
                "end_group"]
NUMBER_LIKE = ["12", "-3", "+7", "1e5", "1E-3", ".5", "1.", "1_0", "inf", "nan",
               "Infinity", "-inf", "0", "007", "1.5e+10", "0x1F", "+.5"]
TIME_LIKE = ["20010101T120000", "2004-W10", "2001-01-01T12", "20010101", "2001-01",
             "2001-01-01", "2001-001", "12:00", "23:59:60", "12:00:00.5",
             "2001-01-01T12:00:00", "12:00Z", "12:00+05", "2001-01-01T01:02-0530",
             "2001-366", "1999-12-31T23:59:60.5Z"]
BASED_LIKE = ["2#101#", "16#FF#", "-8#7#", "16#-1A#", "10#9#", "3#12#", "2#2#"]
RESERVED_CHARS = list("&<>{},[]=!#()%+;~|")


def gen_string(rng, dialect, width):
    """Returns Leaf(str)."""
    r = rng.random()
    non_ascii = dialect in ("PVL", "ISIS")

    def w():
        return rng.choice(WORDS)

    if r < 0.10:
        return Leaf(w(), "str:identifier")
    if r < 0.13:
        return Leaf("", "str:empty")
    if r < 0.21:
        return Leaf(rng.choice(KEYWORD_LIKE), "str:keyword-like")
    if r < 0.29:
        return Leaf(rng.choice(NUMBER_LIKE), "str:number-like")
    if r < 0.35:
        return Leaf(rng.choice(TIME_LIKE), "str:time-like")
    if r < 0.39:
        return Leaf(rng.choice(BASED_LIKE), "str:based-like")
    if r < 0.45:
        q = rng.choice("\"'")
        s = f"{w()}{q}{w()}" if rng.random() < 0.6 else f"it{q}s {w()} {q}"
        if rng.random() < 0.25:
            # ... and a line break: the other quote kind has to be used, and
            # what is between those quotes spans lines
            s = rng.choice((f"say {q}{w()}{q}\nand {w()} {w()}", f"{w()} {w()}\n{q}{w()} {w()}",
                            f"{q}\n{w()} {w()} {w()}", f"{w()}{q}\r\n{w()} x{q}y"))
        return Leaf(s, "str:one-quote-kind")
    if r < 0.48:
        return Leaf(f"a\"b'{w()}", "str:both-quote-kinds", rep=False)
    if r < 0.55:
        c = rng.choice(RESERVED_CHARS)
        form = rng.choice(("{w}{c}{w2}", "{c}{w}", "{w}{c}", "{w} {c} {w2}"))
        return Leaf(form.format(w=w(), c=c, w2=w()), "str:reserved-char")
    if r < 0.60:
        form = rng.choice(("/* {w} */", "{w}/*{w2}", "{w}*/", "# {w}", "{w} #x",
                           "a/b", "a*b", "/{w}", "{w}/", "*{w}", "{w}*",
                           "{w}*/{w2}", "*/{w}", "{w}*/END", "{w}#{w2}", "#{w}",
                           "{w}/*", "/*{w}", "*/", "/*", "#", "{w}*//*{w2}"))
        return Leaf(form.format(w=w(), w2=w()), "str:comment-delimiters")
    if r < 0.64:
        form = rng.choice(("{w}-", "-{w}", "{w}-{w2}", "-", "--", "{w} -"))
        return Leaf(form.format(w=w(), w2=w()), "str:dash")
    if r < 0.72:
        return Leaf(" ".join(w() for _ in range(rng.randint(2, 4))),
                    "str:interior-space")
    if r < 0.76:
        form = rng.choice((" {w}", "{w} ", "  {w}  ", "{w}  {w2}", "\t{w}",
                           "{w}\t{w2}", "{w} \t {w2}"))
        return Leaf(form.format(w=w(), w2=w()), "str:outer-or-multi-space")
    if r < 0.82:
        form = rng.choice(("{w}\nEND\n{w2}", "{w}\nend\n{w2}", "{w}\n  End;\n{w2}",
                           "{w}\nEND_GROUP\n{w2}", "{w}\nGROUP = x\n{w2}",
                           "{w}\n# {w2}\nEND",
                           "{w}\n{w2}", "{w}\r\n{w2}", "{w} \n  {w2}", "{w}-\n{w2}",
                           "{w}-\n   {w2}", "\n{w}", "{w}\n", "{w}\n\n{w2}",
                           "{w}\f{w2}", "{w}\v{w2}", "{w}-\r\n {w2}"))
        return Leaf(form.format(w=w(), w2=w()), "str:line-breaks")
    if r < 0.835:
        # long text with words that end in a dash (ODL-family encoders wrap it)
        words = [w() + ("-" if rng.random() < 0.3 else "") for _ in range(14)]
        return Leaf(" ".join(words), "str:long-with-dash-words")
    if r < 0.85:
        # long text whose words would mean something at the start of a line
        hz = ["#5", "#", "# note", "/*", "*/", "END", "End", "END_GROUP", "=", "x=1",
              "GROUP = g", "-", "--", "(", ")", "{", "}", ";", "&", "flat-field",
              "<m>", ","]
        # "words" that Python (textwrap, str.split) takes for white space but
        # the dialect does not
        hz += ["\xa0", "\xa0x"] if non_ascii else ["\x1c", "\x1e", "\x1fx"]
        words = [rng.choice(hz) if rng.random() < 0.4 else w() for _ in range(16)]
        return Leaf(w() + " " + " ".join(words), "str:long-with-line-start-hazard-words")
    if r < 0.88:
        n = rng.choice((width // 2 - 1, width // 2 + 1, width - 8, width + 5,
                        2 * width))
        n = max(3, n)
        words = []
        while sum(len(x) + 1 for x in words) < n:
            words.append(w())
        s = " ".join(words)[:n].strip() or "ab"
        if rng.random() < 0.3:
            s = s.replace(" ", "_")
        return Leaf(s, "str:long")
    if r < 0.92 and non_ascii:
        return Leaf(rng.choice(["caf\xe9", "\xb5m", "\xa0x", "a\xadb", "\xff"]),
                    "str:latin1")
    if r < 0.94:
        if non_ascii and rng.random() < 0.6:
            # every code the PVL character set excludes, one at a time
            o = rng.choice(list(range(0, 9)) + list(range(14, 32))
                           + list(range(127, 160)))
            bad = rng.choice(["a%sb", "%s", "x y%s"]) % chr(o)
        else:
            bad = rng.choice(["Δv", "€", "\x85x"]) if non_ascii else \
                rng.choice(["caf\xe9", "\xb5m", "Δv"])
        return Leaf(bad, "str:outside-charset", rep=False)
    if r < 0.96 and dialect in ("ODL", "PDS3"):
        return Leaf(rng.choice(["a\x01b", "\x7f", "a\x1bb", "a\x1cb", "\x1f x",
                                "x \x1d"]), "str:ascii-control")
    return Leaf(w() + str(rng.randint(0, 99)), "str:identifier")


# --------------------------------------------------------------------------
# numbers, dates
# --------------------------------------------------------------------------
INTS = [0, 1, -1, 255, -255, 10 ** 20, -(10 ** 20), 7, 42, 1000000]
FLOATS = [0.0, -0.0, 1.5, -2.25, 1e-300, 1e22, 123456789.12345679, 0.1, 1e16,
          -1e-7, 5e-324, 1.7976931348623157e308, 100.0, 3.14159,
          -1e22, -1.5e+22, -1e16, -1.7976931348623157e308, -5e-324, -1e-300,
          1.5e+300, -2.5e-10]


def gen_number(rng):
    if rng.random() < 0.5:
        v = rng.choice(INTS) if rng.random() < 0.7 else rng.randint(-10 ** 6, 10 ** 6)
        return Leaf(v, "int")
    v = rng.choice(FLOATS) if rng.random() < 0.7 else rng.uniform(-1e6, 1e6)
    return Leaf(v, "float")


def gen_tz(rng):
    r = rng.random()
    if r < 0.3:
        return None, "naive"
    if r < 0.6:
        return UTC, "utc"
    if r < 0.75:
        h = rng.choice((1, 5, 9, 10, 12, 13, 14, 20, 23))
        return dt.timezone(dt.timedelta(hours=h)), "plus-whole"
    if r < 0.87:
        h = rng.choice((1, 5, 8, 10, 11, 20, 23))
        return dt.timezone(-dt.timedelta(hours=h)), "minus-whole"
    if r < 0.96:
        # offsets with a minutes part, on both sides of zero and on both sides
        # of one hour (the sign must survive an hour count of zero)
        sign, h, m = rng.choice(((1, 5, 30), (1, 9, 30), (-1, 3, 30), (-1, 0, 30),
                                 (1, 0, 30), (-1, 0, 1), (-1, 0, 59), (1, 5, 45),
                                 (-1, 9, 45), (1, 12, 45), (-1, 11, 59), (1, 0, 1)))
        return dt.timezone(sign * dt.timedelta(hours=h, minutes=m)), "half-hour"
    # an offset with a seconds part (legal in Python, in no dialect)
    return dt.timezone(rng.choice((1, -1)) * dt.timedelta(
        hours=rng.choice((0, 5)), minutes=rng.choice((0, 30)),
        seconds=rng.choice((15, 30, 59)))), "offset-with-seconds"


def gen_us(rng):
    r = rng.random()
    if r < 0.4:
        return 0, "us0"
    if r < 0.6:
        return rng.choice((5000, 50000, 1000, 99000)), "ms-lt-100"
    if r < 0.8:
        return rng.choice((500000, 123000, 999000)), "ms"
    return rng.choice((123456, 1, 999999, 500)), "sub-ms"


def gen_date(rng):
    r = rng.random()
    if r < 0.15:
        y, yc = rng.choice((1, 999, 100)), "year-lt-1000"
    else:
        y, yc = rng.choice((1000, 1999, 2000, 2024, 2100, 9999)), "year-ge-1000"
    m = rng.randint(1, 12)
    d = rng.randint(1, 28)
    return dt.date(y, m, d), yc


def temporal_rep(dialect, kind, tzc, usc, yc):
    """Can *dialect* represent this temporal value (so that the same instant,
    precision and zone meaning come back)?"""
    if kind in ("date", "datetime") and yc == "year-lt-1000":
        pass  # 4-digit years are representable in every dialect
    if kind == "date":
        return True
    if tzc == "offset-with-seconds":
        return False
    if dialect in ("PVL", "ISIS"):
        # no zone syntax besides 'Z': only UTC (or naive, read back as UTC)
        return tzc in ("naive", "utc")
    if dialect == "ODL":
        return tzc != "naive"  # local times cannot be written
    if dialect == "PDS3":
        return tzc in ("naive", "utc") and usc != "sub-ms"
    return True


def gen_temporal(rng, dialect):
    kind = rng.choice(("date", "time", "datetime"))
    d, yc = gen_date(rng)
    if kind == "date":
        return Leaf(d, f"date:{yc}", True)
    tz, tzc = gen_tz(rng)
    us, usc = gen_us(rng)
    h, mi = rng.randint(0, 23), rng.randint(0, 59)
    s = rng.choice((0, 0, rng.randint(1, 59)))
    if kind == "time":
        v = dt.time(h, mi, s, us, tzinfo=tz)
        return Leaf(v, f"time:{tzc}:{usc}", temporal_rep(dialect, kind, tzc, usc, yc))
    v = dt.datetime(d.year, d.month, d.day, h, mi, s, us, tzinfo=tz)
    return Leaf(v, f"datetime:{tzc}:{usc}:{yc}",
                temporal_rep(dialect, kind, tzc, usc, yc))


# --------------------------------------------------------------------------
# units, quantities, sequences, sets
# --------------------------------------------------------------------------
ODL_UNITS = ["m", "km/s", "m**2", "KM/(S**2)", "W*m**-2", "deg", "m / s", "a-b"]
PVL_UNITS = ODL_UNITS + ["m/s^2", "kg m", "%", "a b c", "\xb5m"]


def gen_units(rng, dialect):
    r = rng.random()
    if r < 0.85:
        u = rng.choice(ODL_UNITS if dialect in ("ODL", "PDS3") else PVL_UNITS)
        if not in_charset(dialect, u):
            u = "m"
        return u, ("units:plain" if " " not in u else "units:inner-space"), True
    if r < 0.875:
        # characters at the ends that Python's str.strip() removes but that are
        # no white space to the dialect (they are part of the units text)
        u = rng.choice(("m\xa0", "\xa0m", "m\xa0/\xa0s") if dialect in ("PVL", "ISIS")
                       else ("m\x1f", "\x1cm", "km\x1e/s\x1d"))
        return u, "units:python-space-at-the-ends", True
    if r < 0.90:
        return rng.choice((" m", "m ", " km/s ")), "units:outer-space", False
    if r < 0.95:
        return rng.choice(("m>s", "<m", "a<b>")), "units:delimiter-inside", False
    if dialect in ("ODL", "PDS3"):
        return rng.choice(("m**x", "1m", "m^2", "%")), "units:not-odl", False
    return "", "units:empty", False


def gen_scalar(rng, dialect, width, for_set=False):
    r = rng.random()
    if r < 0.07:
        return Leaf(None, "none")
    if r < 0.14:
        return Leaf(rng.random() < 0.5, "bool")
    if r < 0.36:
        return gen_number(rng)
    if r < 0.80:
        return gen_string(rng, dialect, width)
    return gen_temporal(rng, dialect)


def gen_quantity(rng, dialect, width, Quantity):
    u, uc, urep = gen_units(rng, dialect)
    r = rng.random()
    odl = dialect in ("ODL", "PDS3")
    if r < 0.04:
        # a boolean or None with units: fine in PVL (units may follow any
        # value); no number, so ODL/PDS3 must refuse (bool is an int to Python)
        v = rng.choice((True, False, None))
        return Leaf(Quantity(v, u), f"quantity:{'none' if v is None else 'bool'}:{uc}",
                    urep and not odl)
    if r < 0.75 or (odl and r < 0.88):
        n = gen_number(rng)
        return Leaf(Quantity(n.value, u), f"quantity:{n.cls}:{uc}", urep)
    if r < 0.9 or (odl and r < 0.96):
        # (ODL/PDS3: units may only follow numbers - the encoder must refuse)
        s = gen_string(rng, dialect, width)
        rep = urep and s.rep and dialect in ("PVL", "ISIS")
        return Leaf(Quantity(s.value, u), f"quantity:str:{uc}", rep)
    seq = gen_sequence(rng, dialect, width, Quantity, depth=1, allow_q=False)
    rep = urep and seq.rep and dialect in ("PVL", "ISIS")
    return Leaf(Quantity(seq.value, u), f"quantity:seq:{uc}", rep)


def gen_sequence(rng, dialect, width, Quantity, depth=0, allow_q=True):
    n = rng.choice((0, 1, 2, 3, 3, 5, 9))
    items, rep, kinds = [], True, set()
    for _ in range(n):
        r = rng.random()
        if r < 0.18 and depth < 3:
            sub = gen_sequence(rng, dialect, width, Quantity, depth + 1, allow_q)
        elif r < 0.24 and depth < 2:
            sub = gen_set(rng, dialect, width, Quantity, depth + 1)
        elif r < 0.34 and allow_q:
            sub = gen_quantity(rng, dialect, width, Quantity)
        else:
            sub = gen_scalar(rng, dialect, width)
        items.append(sub.value)
        rep = rep and sub.rep
        kinds.add(sub.cls.split(":")[0])
    cls = "seq:empty" if n == 0 else f"seq:d{depth}:" + "+".join(sorted(kinds))
    if dialect in ("ODL", "PDS3"):
        # ODL: non-empty, at most two dimensions, scalars only
        if n == 0 or not _odl_seq_ok(items):
            rep = False
    return Leaf(items, cls, rep)


def _odl_scalar(v):
    return not isinstance(v, (list, set, frozenset)) and v is not None \
        and not isinstance(v, bool) or isinstance(v, (int, float, str))


def _is_q(v):
    return type(v).__name__ == "Quantity"


def _odl_seq_ok(items):
    for v in items:
        if isinstance(v, list):
            if not v:
                return False
            for i in v:
                if isinstance(i, (list, set, frozenset)) or i is None \
                        or isinstance(i, bool):
                    return False
                if _is_q(i) and not isinstance(i.value, (int, float)):
                    return False
        elif isinstance(v, (set, frozenset)) or v is None or isinstance(v, bool):
            return False
        elif _is_q(v) and (isinstance(v.value, bool)
                           or not isinstance(v.value, (int, float))):
            return False
    return True


def gen_set(rng, dialect, width, Quantity, depth=0):
    n = rng.choice((0, 1, 2, 3, 4))
    items, rep, kinds = [], True, set()
    for _ in range(n):
        r = rng.random()
        if r < 0.12 and depth < 2 and dialect in ("PVL", "ISIS"):
            sub = gen_set(rng, dialect, width, Quantity, depth + 1)
            sub = Leaf(frozenset(sub.value), sub.cls, sub.rep)
        elif r < 0.05 and depth < 1:
            # ODL / PDS3: a set inside a set is not a scalar - must be refused
            sub = gen_set(rng, dialect, width, Quantity, depth + 1)
            sub = Leaf(frozenset(sub.value), "set-inside-set", False)
        elif r < 0.2 and dialect in ("PVL", "ISIS"):
            sub = gen_quantity(rng, dialect, width, Quantity)
            if isinstance(sub.value.value, list):
                continue  # unhashable
        else:
            sub = gen_scalar(rng, dialect, width)
            if dialect == "PDS3" and rng.random() < 0.7:
                # PDS3 sets hold symbols and integers only
                sub = Leaf(rng.randint(0, 9), "int") if rng.random() < 0.5 else \
                    Leaf(rng.choice(WORDS), "str:identifier")
        try:
            hash(sub.value)
        except TypeError:
            continue
        items.append(sub.value)
        rep = rep and sub.rep
        kinds.add(sub.cls.split(":")[0])
    value = set(items) if rng.random() < 0.6 else frozenset(items)
    if dialect in ("ODL", "PDS3"):
        for v in items:
            if v is None or isinstance(v, bool) or isinstance(v, (set, frozenset)):
                rep = False
            if dialect == "PDS3" and not (
                    type(v) is int or (isinstance(v, str) and _pds_symbol_ok(v))):
                rep = False
    cls = "set:empty" if not items else "set:" + "+".join(sorted(kinds))
    return Leaf(value, cls, rep)


def _pds_symbol_ok(s):
    return bool(s) and "'" not in s and s.isprintable() \
        and not any(c in s for c in "\n\r\v\f")


def gen_value(rng, dialect, width, Quantity):
    r = rng.random()
    if r < 0.62:
        return gen_scalar(rng, dialect, width)
    if r < 0.76:
        return gen_quantity(rng, dialect, width, Quantity)
    if r < 0.92:
        return gen_sequence(rng, dialect, width, Quantity)
    return gen_set(rng, dialect, width, Quantity)


# --------------------------------------------------------------------------
# names and modules
# --------------------------------------------------------------------------
PVL_NAMES = ["a", "key", "Name", "LONG_PARAMETER_NAME", "x1", "a.b", "ns:id",
             "^ptr", "lower_case", "MixedCase", "k-2", "a_", "with.dot",
             "a_rather_long_parameter_name_of_40_chars"]
ODL_NAMES = ["a", "key", "Name", "LONG_PARAMETER_NAME", "x1", "ns:id", "^ptr",
             "^ns:ptr", "lower_case", "MixedCase", "K2",
             "A_NAME_OF_EXACTLY_30_CHARACTER"]


def gen_name(rng, dialect):
    """Returns (name, class, representable)."""
    r = rng.random()
    pool = ODL_NAMES if dialect in ("ODL", "PDS3") else PVL_NAMES
    if r < 0.88:
        return rng.choice(pool), "name:plain", True
    if r < 0.90 and dialect in ("PVL", "ISIS"):
        # characters of the Latin-1 half of the PVL character set, also ones
        # that Python's str methods take for white space, digits or letters
        return rng.choice(("a\xa0", "\xa0b", "n\xe9", "\xb5m", "x\xb2", "\xbd", "stra\xdfe",
                           "\xe9\xe8", "a\xadb", "\xd7", "I\xf1")), "name:latin1", True
    if r < 0.93:
        # ISIS itself reads a dash at the end of a line as a continuation, so
        # a block name ending in '-' is not representable there
        return rng.choice(("v-", "tail-")), "name:ends-with-dash", \
            dialect == "PVL"
    if r < 0.96:
        return rng.choice(("End", "group", "END_OBJECT", "null")), \
            "name:keyword", False
    if dialect in ("ODL", "PDS3"):
        return rng.choice(("A_NAME_THAT_IS_LONGER_THAN_30_CHARS", "a-b", "1a",
                           "a_", "a.b")), "name:not-odl", False
    return rng.choice(("12", "2001-01-01", "a b", "a=b", "")), "name:not-a-name", False


class GenModule:
    """A generated module plus bookkeeping about its leaves."""

    def __init__(self, module):
        self.module = module
        self.leaves = []     # (path, name, Leaf, level)
        self.names = []      # (name, class, rep)
        self.rep = True
        self.classes = set()
        self.has_dup = False
        self.n_groups = 0
        self.n_objects = 0
        self.max_depth = 0


def gen_module(rng, dialect, width, col, max_depth=3, plain_names_only=False):
    gm = GenModule(col.PVLModule())

    def fill(container, depth, path):
        gm.max_depth = max(gm.max_depth, depth)
        n = rng.choice((0, 1, 2, 3, 4, 6)) if depth else rng.choice((1, 2, 3, 5, 8))
        used = []
        for _ in range(n):
            if used and rng.random() < 0.15:
                name, ncls, nrep = rng.choice(used)
                if rng.random() < 0.25 and name.swapcase() != name and name.isascii():
                    # the same name in another letter case: distinct names
                    # to Python, one and the same once ODL/PDS3 upper-case it
                    name = name.swapcase()
                gm.has_dup = True
            else:
                name, ncls, nrep = gen_name(rng, dialect)
                if plain_names_only and ncls != "name:plain":
                    name, ncls, nrep = rng.choice(
                        ODL_NAMES if dialect in ("ODL", "PDS3") else PVL_NAMES), \
                        "name:plain", True
            used.append((name, ncls, nrep))
            gm.names.append((name, ncls, nrep))
            gm.rep = gm.rep and nrep
            gm.classes.add(ncls)
            r = rng.random()
            if r < 0.22 and depth < max_depth:
                if rng.random() < 0.5:
                    sub = col.PVLGroup()
                    gm.n_groups += 1
                else:
                    sub = col.PVLObject()
                    gm.n_objects += 1
                fill(sub, depth + 1, path + [name])
                container.append(name, sub)
            else:
                leaf = gen_value(rng, dialect, width, col.Quantity)
                gm.leaves.append((tuple(path), name, leaf, depth))
                gm.rep = gm.rep and leaf.rep
                gm.classes.add(leaf.cls)
                container.append(name, leaf.value)

    fill(gm.module, 0, [])

    def dups(c):
        ks = [k for k, _ in list(c)]
        if len(ks) != len(set(ks)):
            return True
        return any(dups(v) for _, v in list(c) if isinstance(v, dict))

    gm.has_dup = dups(gm.module)
    return gm


# --------------------------------------------------------------------------
# encoder configurations
# --------------------------------------------------------------------------
def gen_config(rng, dialect):
    cfg = {
        "indent": rng.choice((0, 1, 2, 2, 4, 7)),
        "width": rng.choice((20, 40, 80, 80, 200)),
        "aggregation_end": rng.random() < 0.7,
    }
    if dialect in ("PVL", "ODL", "ISIS"):
        cfg["end_delimiter"] = rng.random() < (0.7 if dialect == "PVL" else 0.3)
        cfg["newline"] = rng.choice(("\n", "\r\n")) if rng.random() < 0.5 else \
            ("\r\n" if dialect == "ODL" else "\n")
    if dialect == "PDS3":
        cfg["convert_group_to_object"] = rng.random() < 0.8
        cfg["tab_replace"] = rng.choice((4, 4, 0, 2))
        cfg["symbol_single_quote"] = rng.random() < 0.7
        cfg["time_trailing_z"] = rng.random() < 0.7
    return cfg


def make_encoder(pvl, dialect, cfg):
    E = pvl.encoder
    cls = {"PVL": E.PVLEncoder, "ODL": E.ODLEncoder, "PDS3": E.PDSLabelEncoder,
           "ISIS": E.ISISEncoder}[dialect]
    return cls(**cfg)


def strict_parser(pvl, dialect):
    P, G, D = pvl.parser, pvl.grammar, pvl.decoder
    if dialect == "PVL":
        return P.PVLParser(grammar=G.PVLGrammar(), decoder=D.PVLDecoder())
    if dialect == "ODL":
        return P.ODLParser(grammar=G.ODLGrammar(), decoder=D.ODLDecoder())
    if dialect == "PDS3":
        return P.ODLParser(grammar=G.PDSGrammar(), decoder=D.PDSLabelDecoder())
    if dialect == "ISIS":
        g = G.ISISGrammar()
        return P.OmniParser(grammar=g, decoder=D.OmniDecoder(grammar=g))
    if dialect == "default":
        return P.OmniParser()
    raise KeyError(dialect)
