#!/venv/bin/python
"""Regenerates /verif/MANIFEST.json from the table below and validates it."""
import json
import os
import sys

VERIF = os.path.dirname(os.path.dirname(os.path.abspath(__file__)))

BASELINE_OFF = (
    "cd /repo && env -u PVL_VERIF /venv/bin/python -m pytest -ra -q "
    "-p no:cacheprovider --timeout=900 --continue-on-collection-errors"
)

# property -> (technique, level text, level note, design ref)
CHECKS = {
    "C10": (
        "shadow-model monitor (list of pairs) in lock-step + icontract "
        "invariant on the real class, BFS over states and random histories",
        "Every public accessor of the real container is compared with a "
        "list-of-pairs model after every operation; all ~100 operation "
        "instances are applied from every reachable state up to a depth bound "
        "(exhaustive for that bound) and along random histories of up to 40 "
        "steps; an icontract invariant (dict storage == item list) runs after "
        "every method call, also under the repository's own tests. Held = no "
        "divergence on the executions observed, not a proof for all histories.",
        "Trusts the 60-line model, icontract 2.7.3, CPython. States beyond "
        "the depth bound are only sampled.",
        "DESIGN.md section 4 C10, 3.6",
    ),
    "C11": (
        "snapshot monitor around each copy mechanism + mutation histories on "
        "either side with the other side's snapshot re-checked",
        "Deep structural snapshots of original and copy around .copy(), "
        "copy.copy, copy.deepcopy and pickle protocols 0-5 on random nested "
        "containers with duplicate keys (values incl. lists, sets, nested "
        "containers, quantities and tuples holding lists or sets), followed by "
        "random mutation histories (every mutable object reachable, also "
        "through tuples and quantities) "
        "on the copy (original must not move) and on the original (copy must "
        "not move); per-level class and two-representation invariant checks.",
        "Shallow copies are only required to be independent at the top "
        "level. Random sample of containers, not all containers.",
        "DESIGN.md section 4 C11",
    ),
    "C15": (
        "exhaustive table comparison with the specification predicate + "
        "position/code-point matrix with an error-attribute oracle",
        "char_allowed is compared with the specification for all 1,114,112 "
        "code points x 5 grammars (exhaustive); disallowed characters are "
        "inserted at 20 syntactic positions (before and after END, behind a "
        "dash continuation, behind a repaired missing value) for ~1150 "
        "code points (0..0x2FF, range edges, BOM / zero-width / bidi / Unicode "
        "space and separator specials, random others) x 3 strict grammars x 2 "
        "loader routes and the LexerError attributes are checked against the "
        "text; any-offset insertion into generated documents; thorough: every "
        "code point at the start of the text and between statements; default grammar: code "
        "points inside quoted strings come back unchanged.",
        "Specification predicate transcribed from the Blue Book / ODL "
        "chapter as quoted in the property. Positions are a fixed template "
        "set, not all labels.",
        "DESIGN.md section 4 C15",
    ),
    "C17": (
        "cascade-derived classification oracle run by the harness over the "
        "decoder's own decode_* functions, compared with every public "
        "observer (Token predicates, decode_simple_value type, encode_string "
        "quoting) over an exhaustively enumerated string space",
        "All strings up to length 3 (quick) / 4 (thorough) over a "
        "22-character PVL-significant alphabet, concatenations of ~75 "
        "borderline atoms and random longer strings x 5 (grammar, decoder, "
        "encoder) triples: class exclusivity, predicate/class agreement, "
        "result type, 'unquoted output decodes to itself', 'quoted output "
        "reads back', 'numbers and date/times are never names'.",
        "The class of a string is defined by the documented cascade order; "
        "three design-level disagreements are listed in known_findings.json "
        "and the strings inside those classes certify nothing.",
        "DESIGN.md section 4 C17",
    ),
}

CHECKS.update({
    "C01": (
        "round-trip monitor: generated modules -> real encoder -> real strict "
        "parser, compared with an independent normalisation relation; failing "
        "cases isolated to one statement and shrunk",
        "Random modules over hazard value classes (strings that look like "
        "keywords/numbers/dates, empty, quotes, reserved characters, line "
        "breaks, long; sub-ms and zoned times; units; nested sequences/sets; "
        "duplicate keys; nested blocks) x 4 encoders x random options "
        "(indent, width, newline, end-name, delimiter, PDS3 options); the "
        "result of the dialect's strict parser must equal a structural clone "
        "taken before the dump, up to the five documented normalisations.",
        "Normaliser, clone and value-class feature extractors are my own "
        "(vlib/normalise.py, roundtrip.py). Modules holding a value the "
        "dialect cannot represent are judged on the refusal type only. "
        "One mechanism is listed in known_findings.json.",
        "DESIGN.md section 4 C01, 3.2, 3.7",
    ),
    "C02": (
        "round-trip monitor with pvl.loads(text) (no arguments) as reader; "
        "module.errors must stay empty; pvl.loads(pvl.dumps(m)) identity",
        "Same generator and option space as C01, read back by the default "
        "permissive loader; an empty-value repair firing on encoder output is "
        "a violation; one case stream uses dumps/loads with no arguments.",
        "As C01. Two mechanisms listed in known_findings.json (block names "
        "ending in '-', zone-offset-like strings).",
        "DESIGN.md section 4 C02",
    ),
    "C12": (
        "independent line-level output reader (no pvl import) applying the "
        "dialect's surface rules to every produced text",
        "Character set (specification table), configured line terminator "
        "and no stray CR/LF outside quotes, ODL/PDS3 name form and upper "
        "case, delimiters iff configured, begin/end keywords per dialect and "
        "container class, end-statement names iff configured, indentation = "
        "level x indent, '=' alignment of statements that fit, symbol "
        "strings on one line and between apostrophes (short one-line texts "
        "with an inner blank; also with the PDS3 options left to their "
        "defaults), units only after numbers, ODL/PDS3 set and sequence forms "
        "(no empty sequence, at most two dimensions, sets hold scalars, PDS3 "
        "sets no reals / dates / units), PDS3 no tabs, final "
        "END line form, statement structure equal to the input module.",
        "Scanner rules of DESIGN 3.8 (quotes tracked by a state machine). "
        "Only modules with plain representable names are scanned for "
        "structure.",
        "DESIGN.md section 4 C12, 3.8",
    ),
    "C13": (
        "snapshot monitor: deep structural snapshot of the argument before "
        "and after each of two dumps; text equality of the two dumps",
        "Random modules plus modules biased towards the PDS3 in-place "
        "conversion (top level groups without objects, duplicated names "
        "around the group, invalid PDS groups), plain dicts; 4 encoders x "
        "random options; via encoder.encode on a reused instance and via "
        "pvl.dumps; between the first and second dump the other three dialects "
        "write long labels and the same instance writes another module through "
        "pvl.dumps/pvl.dump with other settings alongside. The only accepted difference is a top-level PVLGroup "
        "that became a PVLObject with identical items at the same position.",
        "Snapshot compares structure, order, multiplicity, class and leaf "
        "repr (not object identity).",
        "DESIGN.md section 4 C13",
    ),
})

CHECKS["C14"] = (
    "specification reader (own regex + datetime constructors) as oracle for "
    "decode_datetime / loads, and as independent reader of encoder output",
    "Exhaustive field boundaries (every day of 11 boundary years in both date "
    "forms, all hours and minutes, seconds 0/1/58/59/60, fractions of 1-6 "
    "digits, zone none/Z/+-H/+-HH/+-HH:MM whole and half hours) plus random "
    "date-times x 5 dialects through decoder.decode_datetime and through "
    "loads in 5 syntactic contexts; encode side: generated temporal values x 4 "
    "encoders x options must be refused or denote the same instant at the "
    "same precision according to the reference reader.",
    "vlib/datespec.py is written from the BNF forms; day-of-year 366 in "
    "non-leap years and dateutil-only ISO forms are not generated.",
    "DESIGN.md section 4 C14",
)

CHECKS.update({
    "C03": (
        "generator-computed expected tree (specification oracle) vs. the "
        "loader's result for freely spelled, freely laid-out documents",
        "Grammar-directed documents with every permitted spelling class "
        "(signed/based integers in each radix and sign position, 8 real "
        "forms, both quotes, unquoted, keywords in any case, dates/times, "
        "nested sets/sequences, units, BEGIN_/plain block keywords in any "
        "case, optional ';', optional end names, optional END) in every "
        "context (top level, first/middle/last of sequences and sets, "
        "quantity magnitude) x 5 parsers; the (spelling x context x parser) "
        "matrix is in the evidence; failures are isolated per statement.",
        "Expected values come from vlib/gen_text.py, which encodes the BNF; "
        "ODL-family string content restricted to what spec and library "
        "documentation agree on. One listed finding (sequence inside a set).",
        "DESIGN.md section 4 C03, 3.3",
    ),
    "C04": (
        "metamorphic monitor: one token list, plain layout vs. random "
        "layouts; failing layouts minimised gap by gap",
        "Each document is rendered with a plain layout and 4 random layouts "
        "(empty separators where the grammar allows, spaces, tabs, LF, CRLF, "
        "CR, FF, VT, runs, block comments with hostile bodies also adjacent "
        "to tokens, '#' comments for ISIS/default); all must load to the "
        "generator's tree; the (token, separator class, token) triples seen "
        "are in the evidence. Four mixed grammar/decoder configurations "
        "(ISISGrammar+PVLDecoder, OmniGrammar+ODLDecoder, "
        "OmniGrammar+PDSLabelDecoder, PVLGrammar+OmniDecoder) are judged "
        "metamorphically against the plain layout of the same tokens.",
        "Gap rules of DESIGN 3.3 (white space required after <units> and "
        "between word-like tokens; Omni readers: no token ending in '-' before "
        "a line break).",
        "DESIGN.md section 4 C04",
    ),
    "C05": (
        "token-level fault injection + reference recogniser as oracle + "
        "oracle-free trace laws (lexer_fn proxy): '='-conservation and 'no "
        "module after an error was thrown into the lexer'",
        "Every position of each generated document is damaged once (delete, "
        "duplicate, swap, replace incl. unterminated quote/units/comment, "
        "truncate) plus sampled double/triple damage, x 5 parsers; ill-formed "
        "lists must raise LexerError/ParseError, still-well-formed lists must "
        "load to the recogniser's tree; every returning load is checked "
        "against the three trace laws ('=' conservation, no module after a "
        "throw into the lexer, module only after END was read or the lexer "
        "reached the end of the text); character-level damage of generated "
        "and corpus labels and a coverage-guided stage (atheris/libFuzzer "
        "over the corpus, fixed seed and run count) are judged by the laws "
        "alone.",
        "Recogniser = vlib/refmodel.py (ambiguity => no verdict, empty blocks "
        "accepted, nothing after END read). One listed finding (OmniParser "
        "unwinding).",
        "DESIGN.md section 4 C05, 3.4, 3.5",
    ),
})

CHECKS.update({
    "C06": (
        "bounded-exhaustive input enumeration + truncation/splice workloads "
        "under an online trace monitor (pull budget on the lexer_fn proxy) "
        "and an exception-type oracle",
        "All sequences up to length 3 (quick) / 4 (thorough) over a 20-symbol "
        "PVL token alphabet, all strings up to length 4 / 5 over a "
        "12-character alphabet (both exhaustive), truncations of every "
        "tests/data label and of generated labels at every offset, random "
        "corpus splices, every sequence of up to 5 tokens in value position, "
        "all pairs of borderline atoms glued together, and a coverage-guided "
        "stage (atheris/libFuzzer over the corpus, fixed seed and run count "
        "per shard, same oracle); x 5 parsers. A load must return or raise "
        "LexerError/ParseError within 50*(len+2) token pulls (largest ratio "
        "observed is reported) and 20 s CPU.",
        "Termination is restated as bounded progress; RecursionError only "
        "excluded above bracket depth 30; the coverage-guided stage is extra "
        "reach and is reported as not run if atheris cannot be installed "
        "from the offline wheelhouse.",
        "DESIGN.md section 4 C06, 3.5",
    ),
    "C08": (
        "generator-side oracle: the generator removes value tokens, renders "
        "the text and computes the line of each '=' itself",
        "For generated documents every subset (<=5 assignments exhaustively, "
        "sampled beyond) of values is removed - top level, nested, first/last "
        "in a block, adjacent runs, before block keywords, ';', END, end of "
        "text - under 3 random layouts; the default loader must return all "
        "statements in order with placeholders carrying the right line and "
        "errors == sorted lines; strict PVL/ODL/PDS3 parsers must raise.",
        "Line = LF count before the '=' + 1 (LF/CRLF layouts only). Two "
        "listed findings (dash continuation shifts lines; '=' inside a "
        "nearby comment).",
        "DESIGN.md section 4 C08",
    ),
})

LEVELS = {"C05": "fault_enumeration"}

CHECKS.update({
    "C07": (
        "metamorphic fix-point monitor: loads -> dumps -> loads -> dumps with "
        "the independent normaliser and a set-order-insensitive text "
        "comparison",
        "t0 from the free-spelling/free-layout generator (including "
        "empty-value placeholders, leap-second strings, units on sequences, "
        "mixed-case keywords, quoted value-like and folded multi-line "
        "strings), all 55 tests/data files and line-deleted variants; for "
        "each of the 4 encoders (default and random options): m1 ~ m2, "
        "m2.errors empty, t1 == t2 up to set element order.",
        "Normaliser of DESIGN 3.7; documents with a sequence inside a set "
        "are not generated (listed under C03).",
        "DESIGN.md section 4 C07",
    ),
    "C09": (
        "differential monitor over 8 entry points + dump-target monitor + "
        "trace monitor (counting lexer via lexer_fn: last token requested is "
        "END, lexer not run to the end of the text)",
        "Generated ASCII labels with 9 classes of trailing bytes (random "
        "binary, high bytes first, UTF-8 text, PVL-looking text, NULs, "
        "punctuation, long unbroken runs, undecodable byte at 4096/8192/16384 "
        "boundaries) and 9 separators, plus non-ASCII UTF-8 labels; 3 in 7 "
        "labels for the default loader, 4 in 7 for a strict PVL/ODL/PDS3/ISIS "
        "parser passed as parser= (then also with the data directly behind END, "
        "starting with a character the dialect forbids); a quarter of the "
        "labels hold a line reading END inside a quoted string or comment; through "
        "load(str|Path|text stream|binary stream|BytesIO), loadu(file URL), "
        "loads(str|bytes); dump to path/Path/text/binary/BytesIO/StringIO "
        "compared byte for byte with dumps and the returned length.",
        "file: URLs only; scratch files under /dev/shm.",
        "DESIGN.md section 4 C09",
    ),
})

CHECKS.update({
    "C16": (
        "history monitor: reused instance vs fresh instance after every call, "
        "over all ordered pairs/triples of representative inputs",
        "Parsers (5 configurations): all ordered pairs and triples over 20 "
        "representative texts (exhaustive for that set; every second triple in "
        "the quick tier), every (call kind, text) followed by (parse, text) for "
        "the call kinds parse / pvl.loads(parser=) / pvl.load(parser=) / "
        "pvl.loads(parser=, grammar=, decoder= of another dialect), plus random "
        "histories up to 12 calls - result snapshot, errors attribute, exception "
        "type, position attributes and message must equal those of a fresh "
        "instance in a pristine process (forked before the worker processed "
        "anything, one fork per reference); "
        "encoders (4 classes x 2 option sets) over pairs/triples of modules "
        "incl. refusals and PDS3 conversions; decoders over random decode_* "
        "histories; the long-lived instances in pvl_validate.dialects and "
        "pvl_translate.formats.",
        "The representative input set is fixed; histories beyond triples are "
        "sampled.",
        "DESIGN.md section 4 C16",
    ),
    "C18": (
        "recording substitute classes + recursive type walk of the result + "
        "map-back comparison with the plain load",
        "Generated documents x 8 (parser, decoder) pairings (5 matching, 3 "
        "with a grammar and a decoder of different dialects) x random subsets "
        "of {real_cls (recording class or Decimal), quantity_cls, module, "
        "group, object classes}: every real is the substitute and saw the "
        "literal's text, every quantity and container is the substitute at "
        "every depth, integers stay int, and mapping the substitutes back "
        "equals the plain load; without sets the reals seen must be the "
        "written ones one for one in order; 'equal twin' documents (equal "
        "reals written differently with identical units at every depth).",
        "Numbers that compare equal collapse inside Python sets; such "
        "documents are compared by value there. PDSLabelDecoder has no "
        "real_cls parameter (not constructible).",
        "DESIGN.md section 4 C18",
    ),
    "C19": (
        "differential monitor pvl.new vs pvl on the same texts (loads, "
        "items at every level, errors, five dumps)",
        "Well-formed generated documents (free spelling and layout) and every "
        "well-formed tests/data label: success iff success, New container "
        "classes with identical (name, value) sequences at every level, "
        "identical errors, identical text from PVL/ODL/PDS3/ISIS encoders "
        "(built with the New classes) and from the no-argument dumps.",
        "multidict 6.8.0 as installed; ill-formed texts (incl. missing "
        "values) are outside the property's quantifier.",
        "DESIGN.md section 4 C19",
    ),
    "C20": (
        "differential monitor: tool stdout / failure vs the library "
        "expression evaluated with the harness's own dialect table",
        "Generated files (well-formed in 5 spellings, missing values, token "
        "damage, trailing binary, non-ASCII) and all tests/data files through "
        "pvl_translate -of PDS3/ODL/ISIS/PVL/JSON (stdout, stdin; outfile in "
        "a real process) and pvl_validate (single file report, many-file "
        "table): byte-identical output, failure iff the library fails, each "
        "(row, loads/encodes) cell equal to the harness's verdict, report "
        "layout, completion (validate runs with no flag, -v and -vv in "
        "turn); a sample runs the entry points as subprocesses.",
        "In-process calls with captured stdout for speed.",
        "DESIGN.md section 4 C20",
    ),
})

NOT_YET = "check not built yet in this round (work in progress; see DESIGN.md section 8 build order)"

ALL = [f"C{n:02d}" for n in range(1, 21)]


# what later rounds added to the workloads (appended to the level text)
ADDENDA = {
    "C14": "Zone offsets below one hour on both sides of zero, and of 10, 20, 23 hours.",
    "C12": "After a refusal the same encoder object is asked again; names with letters that upper() turns into ASCII.",
    "C09": "Multi-byte characters of the label itself at read-block boundaries (64 ... 8192) through every byte-wise entry point; streams the caller has already read a header line from; '#' comments glued to END; characters str.splitlines() takes for line boundaries.",
    "C02": "Same generator as C01 (see there).",
    "C01": "Value generator: Latin-1 parameter names, strings around comment delimiters, quote + line break, zone offsets below one hour and of 10/20/23 hours, units with Python-only white space at their ends. Pair sweep: a string with a single quote character next to a long dashed string that has to wrap.",
    "C03": "A quarter of the loads are preceded by a load of the same text "
           "through a differently configured parser (Decimal/Fraction reals, "
           "other quantity class, caller's containers, another dialect). "
           "Text generator: exponents beyond the float range, zone offsets below one hour, words whose digits are not ASCII digits, words made of characters only Python takes for white space, keyword look-alikes as values and names; every fourth worker keeps one parser object per reader and feeds it truncated texts. Hand-written string contents with continuation marks, blanks and line breaks at the ends of the string (string_edges). Words that begin like a date or time and end like a zone offset (permissive readers).",
    "C04": "Which dialect a worker uses first differs from shard to shard. "
           "Also documents with missing values under the two permissive readers.",
    "C05": "For the ISIS reader also blocks begun with another dialect's "
           "spelling of the keyword (the only anomaly is a dialect rule). "
           "What stands before a stray '=' is a classification feature; lone surrogates for the default reader.",
    "C06": "Also: four configurations with real_cls=Decimal on the "
           "number-heavy sources, numbers beyond what int/float/Decimal take, "
           "labels with thousands of different words, and half of the workers "
           "keep one parser object per configuration for all their loads. "
           "Sources keyword look-alikes and lone surrogates. Labels handed over as bytes / binary streams / files with a multi-byte character across a read-block boundary.",
    "C07": "A third source of t0 are texts written by the four encoders "
           "(random options) from generated modules (cross-dialect chains). A fourth source slides a word that only Python takes for white space (or a dash) through the wrap points of a long string.",
    "C08": "The default loader is called five ways: fresh OmniParser, "
           "pvl.loads(text), one long-lived parser per worker, and with the "
           "caller's own container classes (derived from the defaults / built "
           "on the multi-dict). "
           "30 % of the judged loads are preceded by a failed load with missing values through the same way of calling the loader.",
    "C10": "Also negative key_index instances, and histories over up to three "
           "live containers built from one another (constructor, copy(), "
           "extend / insert with a container as the source), each compared "
           "with its own model after every step. "
           "Also refused multi-pair inserts, one-shot iterators as insert argument, and the equality law with equal-but-different values.",
    "C11": "After each mutation round every accessor of both sides (lookup, "
           "getall, key_index, view indexing) is compared with a model of that "
           "side's own list.",
    "C13": "Also modules in the multidict-based containers of pvl.new through "
           "pvl.new.dumps, and values of the caller's own classes with "
           "add_quantity_cls called on other encoder objects between dumps. "
           "The same encoder object also writes case-swapped twins of the module between the dumps. Strings near the border of the quoting decision are written before and after the whole process history of loads and dumps.",
    "C15": "Five loader routes: the dialect's parser, loads/load with "
           "grammar=, loads/load with the dialect's decoder alone. "
           "Labels handed over as bytes with data behind END and a disallowed multi-byte character at a read-block boundary; the character behind a dash continuation (default grammar, three routes). The last characters of a text without END.",
    "C16": "Also two user-subclass parser configurations and a family of "
           "modules around refusals raised part-way through a nested value. "
           "One parser object per configuration fed 700 texts, six of seven failing inside a nested value (soak); every module an instance handed back is looked at again after every later call; wrap-hazard modules. Texts with dash continuations; modules with strings one or another encoder has no notation for. One module object written, edited in place and written again by the same encoder object.",
    "C17": "Also six encoders built with a grammar and a decoder of different "
           "dialects (writer law only), and a sample of the strings "
           "re-observed in a pristine process. "
           "Parser-level name checks (a number / date / time where only a name can stand must not load, also between quotes in front of a second '='); the decoder-only Token form. The based-integer class is anchored to an independent reader of that notation, the date/time class also to what the notation excludes.",
    "C18": "Substitutes are handed over through every loader entry point "
           "(str, bytes, streams, path, file: URL; with and without data "
           "behind END); a third of the cases build the plain and the "
           "customised parser around one grammar object, in either order. "
           "A quantity class that refuses some units: the load may fail, it may not return. One class handed over for several container roles; a refusing quantity class behind a parameter without a value.",
    "C19": "Also the same optional loader arguments on both sides (15 "
           "grammar=/decoder= configurations, fresh objects per side, "
           "interleaved in one process). "
           "Also bytes that are not all decodable (data behind END, a stray byte inside) on both sides.",
    "C20": "Also 19 small labels around what one or another encoder refuses, "
           "in a shuffled order (the tools keep one encoder per format). "
           "27 hazard labels in all (units only some encoders take, ParseError texts), each also with -v, -vv, -v -v -v. Invocations of pvl_validate with 9 to 51 files.",
}
HISTORY_NOTE = (" Every second worker process first lives through a history "
                "of ordinary calls in other dialects and configurations "
                "(vlib/prelude.py) before it starts its workload.")


def main():
    checks = []
    for pid in ALL:
        if pid not in CHECKS:
            continue
        tech, text, note, ref = CHECKS[pid]
        if pid in ADDENDA:
            text = text.rstrip() + " " + ADDENDA[pid]
        text += HISTORY_NOTE
        checks.append({
            "property_id": pid,
            "quick_cmd": f"./check {pid} --tier quick",
            "thorough_cmd": f"./check {pid} --tier thorough",
            "evidence_file": f"/verif/evidence/{pid}.json",
            "replay_cmd_template": f"./check {pid} --replay {{path}}",
            "engine": "pvl-runtime-monitors",
            "level_claimed": {"category": LEVELS.get(pid, "exploration"),
                              "text": text,
                              "design_ref": ref},
            "level_note": note,
            "technique": "runtime monitoring: " + tech,
        })
    man = {
        "version": 1,
        "setup_cmd": "./setup.sh",
        "hooks": {
            "guard": "PVL_VERIF",
            "enable": "No source hooks in /repo: every observation point is "
                      "public API (lexer_fn=, module_class=, real_cls=) or "
                      "attached from /verif at import time (icontract "
                      "invariants, trace proxies). PVL_VERIF=1 only switches "
                      "on the harness-side pytest plugin vlib.pytest_contracts "
                      "when the repository's tests are used as a workload.",
            "baseline_off_cmd": BASELINE_OFF,
            "source_commits": [],
            "add_only": True,
        },
        "engines": [{
            "name": "pvl-runtime-monitors",
            "path": "/verif/vlib",
            "serves_properties": sorted(CHECKS),
            "kind_free_text": "runtime monitoring: workload generators drive "
            "the real library from the working tree; reference-model, "
            "invariant, trace, differential and snapshot monitors decide; "
            "three-valued verdict (0 held / 1 VIOLATION / 2 inconclusive)",
        }],
        "checks": checks,
        "not_applicable": [
            {"property_id": p, "reason": NOT_YET} for p in ALL if p not in CHECKS
        ],
        "notes": "Exit 2 = inconclusive (a deciding monitor was not reached "
                 "or a watchdog fired); never folded into 0 or 1. Known "
                 "findings: /verif/known_findings.json.",
    }
    path = os.path.join(VERIF, "MANIFEST.json")
    with open(path, "w") as f:
        json.dump(man, f, indent=1)
        f.write("\n")
    try:
        sys.path.append("/opt/veriftools/pyvenv/lib/python3.11/site-packages")
        import jsonschema

        jsonschema.validate(man, json.load(open("/root/.vp/MANIFEST.schema.json")))
        print("MANIFEST.json valid;", len(checks), "checks")
    except ImportError:
        print("MANIFEST.json written (jsonschema not importable here)")


if __name__ == "__main__":
    main()
