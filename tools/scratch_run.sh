#!/bin/bash
# tools/scratch_run.sh (--revert <commit> | --patch <file> | --sed '<expr>' <relpath>) -- <check args...>
# Copies /repo's working tree to /dev/shm, applies a change there, runs
# ./check with VERIF_REPO pointing at the copy, then removes the copy.
set -u
D=$(mktemp -d /dev/shm/pvlscratch.XXXXXX)
cleanup() { rm -rf "$D"; }
trap cleanup EXIT
rsync -a --exclude .git/objects /repo/ "$D/" 2>/dev/null || cp -a /repo/. "$D/"
cd "$D" || exit 2
case "$1" in
  --revert) git -C /repo show "$2" | patch -R -p1 -s -d "$D" || { echo "revert failed"; exit 2; }; shift 2;;
  --patch) patch -p1 -s -d "$D" < "$2" || { echo "patch failed"; exit 2; }; shift 2;;
  --sed) sed -i "$2" "$D/$3" || exit 2; shift 3;;
esac
[ "$1" = "--" ] && shift
if [ "${BASELINE:-0}" = "1" ]; then
  /verif/tools/baseline_check.py "$D" | tail -3
fi
cd /verif && VERIF_REPO="$D" ./check "$@"
