#!/venv/bin/python
"""tools/eval_seed.py <worktree> <prop> <n> [extra checks ...]
Confirms a sub-agent's seeded change (patchN.diff + demoN.py) independently on
a scratch copy of /repo, runs the checks against it, and files it under
/verif/seeded/<prop>-<n>/ with what was run."""
import json, os, shutil, subprocess, sys, tempfile

wt, prop, n = sys.argv[1], sys.argv[2], sys.argv[3]
extra = sys.argv[4:]
seed = os.path.join(wt, "seed")
patch = os.path.join(seed, f"patch{n}.diff")
demo = os.path.join(seed, f"demo{n}.py")
meta = json.load(open(os.path.join(seed, f"meta{n}.json")))
d = tempfile.mkdtemp(prefix="pvlseed.", dir="/dev/shm")
res = {"property": prop, "n": n}
try:
    subprocess.run(["rsync", "-a", "--exclude", ".git", "/repo/", d + "/"], check=True)
    shutil.copy(demo, os.path.join(d, "demo.py"))
    env = dict(os.environ, PYTHONPATH=d, PYTHONHASHSEED="0")
    r0 = subprocess.run(["/venv/bin/python", "demo.py"], cwd=d, env=env,
                        capture_output=True, text=True, timeout=600)
    res["demo_without_patch_rc"] = r0.returncode
    a = subprocess.run(["patch", "-p1", "-s", "-d", d, "-i", patch], capture_output=True, text=True)
    res["patch_applies"] = a.returncode == 0
    if a.returncode != 0:
        print(json.dumps(res), a.stdout[-300:], a.stderr[-300:]); sys.exit(1)
    b = subprocess.run(["/verif/tools/baseline_check.py", d], capture_output=True, text=True)
    res["repo_tests_pass_with_patch"] = b.returncode == 0
    r1 = subprocess.run(["/venv/bin/python", "demo.py"], cwd=d, env=env,
                        capture_output=True, text=True, timeout=600)
    res["demo_with_patch_rc"] = r1.returncode
    res["demo_output"] = (r1.stdout + r1.stderr)[-400:]
    checks = {}
    for c in [prop] + extra:
        e2 = dict(os.environ, VERIF_REPO=d, VERIF_FAILFAST="20")
        r = subprocess.run(["/verif/check", c, "--tier", "quick"], env=e2, cwd="/verif",
                           capture_output=True, text=True)
        kinds = sorted({ln.split('"kind": "')[1].split('"')[0] for ln in r.stdout.split("\n")
                        if ln.startswith("  violating class") and '"kind": "' in ln})
        checks[c] = {"rc": r.returncode, "kinds": kinds[:5]}
    res["checks"] = checks
finally:
    shutil.rmtree(d, ignore_errors=True)
valid = (res.get("demo_without_patch_rc") == 0 and res.get("repo_tests_pass_with_patch")
         and res.get("demo_with_patch_rc", 0) != 0)
res["confirmed"] = bool(valid)
print(json.dumps(res, indent=1))
if valid:
    out = f"/verif/seeded/{prop}-{int(n) + int(os.environ.get("SEED_OFFSET", "0"))}"
    os.makedirs(out, exist_ok=True)
    shutil.copy(patch, os.path.join(out, "patch.diff"))
    shutil.copy(demo, os.path.join(out, "demo.py"))
    meta2 = {"breaks_property": prop, "summary": meta.get("summary"),
             "needs_to_manifest": meta.get("needs_to_manifest"),
             "files_changed": meta.get("files_changed"),
             "confirmed": {"repo_tests_pass_with_patch": True,
                           "demo_rc_without_patch": 0,
                           "demo_rc_with_patch": res["demo_with_patch_rc"],
                           "how": "tools/eval_seed.py on a /dev/shm copy of /repo "
                                  "(patch -p1, tools/baseline_check.py, demo with "
                                  "PYTHONPATH=<copy>)"},
             "checks_quick": res["checks"],
             "caught_by": [c for c, o in res["checks"].items() if o["rc"] == 1]}
    json.dump(meta2, open(os.path.join(out, "meta.json"), "w"), indent=1)
