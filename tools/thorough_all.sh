#!/bin/bash
# Runs the thorough tier of every check (or the ones given) and prints one line each.
cd "$(dirname "$0")/.." || exit 2
./setup.sh >/dev/null 2>&1
LIST=${@:-C01 C02 C03 C04 C05 C06 C07 C08 C09 C10 C11 C12 C13 C14 C15 C16 C17 C18 C19 C20}
for c in $LIST; do
  s=$(date +%s)
  out=$(./check $c --tier thorough 2>&1)
  rc=$?
  echo "== $c rc=$rc $(( $(date +%s) - s ))s :: $(echo "$out" | grep -E '^C[0-9]+ tier' | head -1)"
  echo "$out" | grep -E "VIOLATION|INCONCLUSIVE|violating class" | cut -c1-400 | head -8
done
