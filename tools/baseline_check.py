#!/venv/bin/python
"""Run the repository's pinned test command (guard OFF) and compare with
/root/.vp/BASELINE.json: every stable_pass test must still pass."""
import json, os, subprocess, sys, tempfile
import xml.etree.ElementTree as ET

repo = sys.argv[1] if len(sys.argv) > 1 else "/repo"
base = json.load(open("/root/.vp/BASELINE.json"))
fd, path = tempfile.mkstemp(suffix=".xml", dir="/dev/shm"); os.close(fd)
env = {k: v for k, v in os.environ.items() if not k.startswith("PVL_VERIF")}
env["PYTHONPATH"] = repo
r = subprocess.run(
    ["/venv/bin/python", "-m", "pytest", "-ra", "-q", "-p", "no:cacheprovider",
     "--timeout=900", "--continue-on-collection-errors", f"--junitxml={path}"],
    cwd=repo, env=env, capture_output=True, text=True)
passed = set()
for tc in ET.parse(path).getroot().iter("testcase"):
    if not any(ch.tag in ("failure", "error", "skipped") for ch in tc):
        passed.add(f"{tc.get('classname')}::{tc.get('name')}")
os.unlink(path)
missing = [t for t in base["stable_pass"] if t not in passed]
print(f"baseline stable_pass={len(base['stable_pass'])} passing_now={len(base['stable_pass'])-len(missing)}")
for m in missing:
    print("NOT PASSING:", m)
sys.exit(1 if missing else 0)
