#!/bin/bash
# tools/seed_sweep.sh [tier] [seeds...]: every check under several VERIF_SEED values, fresh processes
cd "$(dirname "$0")/.." || exit 2
TIER=${1:-quick}; shift
SEEDS=${@:-1 2 3 7}
for s in $SEEDS; do
  for n in $(seq -w 1 20); do
    out=$(VERIF_SEED=$s ./check C$n --tier $TIER 2>&1); rc=$?
    [ $rc -ne 0 ] && { echo "seed=$s C$n rc=$rc"; echo "$out" | grep -E "violating class|INCONCLUSIVE" | cut -c1-500 | head -5; }
  done
  echo "seed $s done"
done
