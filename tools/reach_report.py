#!/venv/bin/python
"""tools/reach_report.py [--tier quick] [Cxx ...]
Runs the checks with VERIF_COVER set, merges the executed-line records of all
workers and reports, per file of pvl/, which executable lines no monitor
workload reached.  Output: reach/<tier>.json and a summary on stdout.  Not a
registered check: it shows what the workloads drive, it decides nothing."""
import glob
import json
import os
import shutil
import subprocess
import sys
import tempfile

VERIF = os.path.dirname(os.path.dirname(os.path.abspath(__file__)))
REPO = os.environ.get("VERIF_REPO", "/repo")


def executable_lines(path):
    src = open(path).read()
    code = compile(src, path, "exec")
    lines = set()
    todo = [code]
    while todo:
        c = todo.pop()
        for _, _, ln in c.co_lines():
            if ln:
                lines.add(ln)
        for k in c.co_consts:
            if hasattr(k, "co_lines"):
                todo.append(k)
    # drop docstring-only / def lines that are always hit at import anyway
    return lines


def main():
    args = [a for a in sys.argv[1:] if not a.startswith("--")]
    tier = "thorough" if "--tier=thorough" in sys.argv or "thorough" in sys.argv[1:2] else "quick"
    args = [a for a in args if a.startswith("C")]
    checks = args or [f"C{n:02d}" for n in range(1, 21)]
    d = tempfile.mkdtemp(prefix="pvlreach.", dir="/dev/shm")
    per_check = {}
    try:
        for c in checks:
            cd = os.path.join(d, c)
            env = dict(os.environ, VERIF_COVER=cd, VERIF_REPO=REPO, VERIF_SCRATCH="1")
            r = subprocess.run([os.path.join(VERIF, "check"), c, "--tier", tier],
                               env=env, cwd=VERIF, capture_output=True, text=True)
            seen = set()
            for f in glob.glob(os.path.join(cd, "*.json")):
                seen.update(tuple(x) for x in json.load(open(f)))
            per_check[c] = seen
            print(c, "rc", r.returncode, "lines reached", len(seen), flush=True)
        union = set().union(*per_check.values())
        report = {"tier": tier, "checks": checks, "files": {}}
        for path in sorted(glob.glob(os.path.join(REPO, "pvl", "*.py"))):
            name = os.path.basename(path)
            ex = executable_lines(path)
            hit = {ln for f, ln in union if f == name}
            miss = sorted(ex - hit)
            report["files"][name] = {
                "executable": len(ex), "reached": len(ex & hit), "unreached": miss,
                "reached_by": {c: len({ln for f, ln in s if f == name})
                               for c, s in per_check.items()}}
            print(f"{name:18s} {len(ex & hit):4d}/{len(ex):4d}  unreached: "
                  f"{miss[:40]}{' ...' if len(miss) > 40 else ''}")
        os.makedirs(os.path.join(VERIF, "reach"), exist_ok=True)
        json.dump(report, open(os.path.join(VERIF, "reach", f"{tier}.json"), "w"),
                  indent=1)
    finally:
        shutil.rmtree(d, ignore_errors=True)


if __name__ == "__main__":
    main()
