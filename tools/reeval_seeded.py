#!/venv/bin/python
"""tools/reeval_seeded.py [--all-checks] [seed-dir-name ...]
Re-confirms every seeded change under /verif/seeded (patch applies to the
current /repo, repository tests still pass, demo passes without / fails with
the patch) and re-runs the quick checks against it; rewrites meta.json
(checks_quick, caught_by) and prints the detection matrix."""
import json, os, shutil, subprocess, sys, tempfile

VERIF = os.path.dirname(os.path.dirname(os.path.abspath(__file__)))
ALL = [f"C{n:02d}" for n in range(1, 21)]
args = [a for a in sys.argv[1:] if not a.startswith("--")]
all_checks = "--all-checks" in sys.argv
root = os.path.join(VERIF, "seeded")
rows = []
for name in sorted(os.listdir(root)):
    sd = os.path.join(root, name)
    if not os.path.isdir(sd) or (args and name not in args):
        continue
    meta = json.load(open(os.path.join(sd, "meta.json")))
    prop = meta["breaks_property"]
    d = tempfile.mkdtemp(prefix="pvlseed.", dir="/dev/shm")
    try:
        subprocess.run(["rsync", "-a", "--exclude", ".git", "/repo/", d + "/"], check=True)
        shutil.copy(os.path.join(sd, "demo.py"), os.path.join(d, "demo.py"))
        env = dict(os.environ, PYTHONPATH=d, PYTHONHASHSEED="0")
        r0 = subprocess.run(["/venv/bin/python", "demo.py"], cwd=d, env=env,
                            capture_output=True, text=True, timeout=900)
        a = subprocess.run(["patch", "-p1", "-s", "-d", d, "-i",
                            os.path.join(sd, "patch.diff")], capture_output=True, text=True)
        if a.returncode != 0:
            print(name, "PATCH DOES NOT APPLY to the current /repo")
            meta["confirmed"]["applies_to_current_repo"] = False
            json.dump(meta, open(os.path.join(sd, "meta.json"), "w"), indent=1)
            continue
        b = subprocess.run([os.path.join(VERIF, "tools", "baseline_check.py"), d],
                           capture_output=True, text=True)
        r1 = subprocess.run(["/venv/bin/python", "demo.py"], cwd=d, env=env,
                            capture_output=True, text=True, timeout=900)
        checks = {}
        for c in (ALL if all_checks else [prop]):
            r = subprocess.run([os.path.join(VERIF, "check"), c, "--tier", "quick"],
                               env=dict(os.environ, VERIF_REPO=d, VERIF_FAILFAST="20"), cwd=VERIF,
                               capture_output=True, text=True)
            kinds = sorted({ln.split('"kind": "')[1].split('"')[0]
                            for ln in r.stdout.split("\n")
                            if ln.startswith("  violating class") and '"kind": "' in ln})
            checks[c] = {"rc": r.returncode, "kinds": kinds[:5]}
        meta["confirmed"].update({
            "applies_to_current_repo": True,
            "repo_tests_pass_with_patch": b.returncode == 0,
            "demo_rc_without_patch": r0.returncode, "demo_rc_with_patch": r1.returncode})
        prev = meta.get("checks_quick", {})
        prev.update(checks)
        meta["checks_quick"] = prev
        meta["caught_by"] = sorted(c for c, o in prev.items() if o["rc"] == 1)
        json.dump(meta, open(os.path.join(sd, "meta.json"), "w"), indent=1)
        rows.append((name, b.returncode == 0, r0.returncode, r1.returncode, meta["caught_by"]))
        print(f"{name:8s} tests_pass={b.returncode == 0} demo {r0.returncode}->{r1.returncode} "
              f"caught_by={meta['caught_by']}", flush=True)
    finally:
        shutil.rmtree(d, ignore_errors=True)
