#!/bin/bash
# Offline setup: install icontract (+asttokens, typing_extensions) beside the
# repository's interpreter into the git-ignored /verif/.deps.
cd "$(dirname "$0")" || exit 2
export PIP_NO_INDEX=1
mkdir -p .deps .work evidence replay
if [ ! -f .deps/.ok ]; then
  /venv/bin/python -m pip install -q --no-index --find-links /opt/veriftools/wheels \
      --target .deps --upgrade icontract || exit 1
  echo ok > .deps/.ok
fi
/venv/bin/python -c "import sys; sys.path.append('.deps'); import icontract; print('icontract', icontract.__version__)"
